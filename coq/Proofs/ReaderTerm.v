(* Proofs/ReaderTerm.v -- the reader model always makes progress and never runs out of the fuel
   8 + 4 * (input length): termination of the recursive-descent reader (C02). *)
From Coq Require Import ZArith NArith List Bool Lia String.
From Coq.Strings Require Import Byte.
From Coq.Floats Require Import SpecFloat.
From Verif Require Import Lanes Common Values Floats Scan Numbers Equality Tokens Reader Configs ByteSweep ScanProofs ReaderInv NumProgress FlagProofs.
Import ListNotations.
Local Open Scope N_scope.
Local Arguments skip_ws : simpl never.
Local Arguments read_identifier : simpl never.

Section Term.
Variable c : cfg.
Variable o : opts.
Variable handler : Z -> node -> option node * option bytes.
Variable xe : Z -> option (Z -> Z -> bool).
Variable xh : Z -> option (Z -> Z).
Variable sort : list node -> list node.
Variable m : mem.
Variable e : N.

(* what the GENERATED dispatch table guarantees about the bytes routed to the number reader
   (discharged for the four flag sets by 256-value sweeps at the end of the file) *)
Hypothesis digit_class : forall b, (dispatch_of c b =? ct_digit c)%Z = true -> is_dig b = true.
Hypothesis sign_class : forall b, (dispatch_of c b =? ct_sign c)%Z = true -> is_c b "-" = true \/ is_c b "+" = true.

(* ------------------------------------------------------------------ token readers advance *)
Lemma skip_ws_ge p : p <= e -> p <= skip_ws m p e.
Proof. intros H. rewrite skip_ws_correct by assumption. lia. Qed.

Lemma tp_plain_string s v s' : cur s < e -> read_plain_string m e s = Ret (Some v) s' -> cur s < cur s'.
Proof.
  intros Hc. unfold read_plain_string. rewrite find_quote_correct by lia.
  destruct (find_quote_spec false false 0 _) as [[i fl]|]; cbn [lift_q fail]; intros H; [|discriminate].
  injection H as _ <-. cbn. lia.
Qed.

Lemma tb_blank_ge f : forall p, p <= tb_blank m e f p.
Proof. induction f as [|f IH]; intros p; cbn [tb_blank]; [lia|]. destruct ((p <? e) && is_blank (m p)); [|lia]. specialize (IH (p + 1)). lia. Qed.

Lemma tb_content_ge f : forall p esc ce esc' t nc, tb_content m e f p esc = Some (ce, esc', t, nc) -> p < nc.
Proof.
  induction f as [|f IH]; intros p esc ce esc' t nc H; cbn [tb_content] in H; [discriminate|].
  destruct (p <? e); [|discriminate].
  destruct (is_bslash (m p) && (p + 3 <? e) && is_quote (m (p + 1)) && is_quote (m (p + 2)) && is_quote (m (p + 3))).
  - apply IH in H. lia.
  - destruct (is_quote (m p) && (p + 3 <=? e) && is_quote (m (p + 1)) && is_quote (m (p + 2))); [injection H as _ _ _ <-; lia|].
    destruct (is_lf (m p)); [injection H as _ _ _ <-; lia|]. apply IH in H. lia.
Qed.

Lemma tb_line_ge p ln nc : tb_line m e p = Some (ln, nc) -> p < nc.
Proof.
  unfold tb_line. destruct (tb_content m e _ _ false) as [[[[ce esc] t] nc']|] eqn:Hc; [|discriminate].
  intros H. injection H as _ <-. apply tb_content_ge in Hc. pose proof (tb_blank_ge (S (N.to_nat (e - p))) p). lia.
Qed.

Lemma tb_lines_ge f : forall p acc ls nc, tb_lines m e f p acc = inl (ls, nc) -> p <= nc.
Proof.
  induction f as [|f IH]; intros p acc ls nc H; cbn [tb_lines] in H; [injection H as _ <-; lia|].
  destruct (p <? e); [|injection H as _ <-; lia].
  destruct (tb_line m e p) as [[ln nc']|] eqn:Hl; [|discriminate]. apply tb_line_ge in Hl.
  destruct (tl_terminal ln); [injection H as _ <-; lia|]. apply IH in H. lia.
Qed.

Lemma tp_string s v s' : cur s < e -> read_string c m e s = Ret (Some v) s' -> cur s < cur s'.
Proof.
  intros Hc. unfold read_string.
  destruct (exp c && (cur s + 3 <? e) && is_quote (m (cur s)) && is_quote (m (cur s + 1)) &&
            is_quote (m (cur s + 2)) && is_lf (m (cur s + 3)))%bool.
  - destruct (tb_lines m e _ _ _) as [[ls nc]|lp] eqn:Ht; [|discriminate]. apply tb_lines_ge in Ht.
    destruct (match rev ls with l :: _ => tl_terminal l | [] => false end); intros H; [|discriminate].
    injection H as _ <-. cbn. lia.
  - now apply tp_plain_string.
Qed.

Lemma tp_identifier s v s' : cur s <= e -> read_identifier m e s = Ret (Some v) s' -> cur s < cur s'.
Proof.
  intros Hc. unfold read_identifier, split_identifier. rewrite scan_identifier_correct by assumption.
  destruct (ident_spec false None 0 _) as [[i sl]|]; cbn [lift_slash fail]; [|discriminate].
  destruct (N.eqb_spec (cur s + N.of_nat i) (cur s)) as [|Hne]; [discriminate|].
  assert (Hi : cur s < cur s + (cur s + N.of_nat i - cur s)) by lia.
  destruct sl as [j|].
  - destruct (cur s + N.of_nat i - cur s =? 1).
    + destruct (is_colon _); [destruct (_ =? 0); [discriminate|]; destruct (is_colon _); [discriminate|]|];
        try (destruct (bytes_eqb _ (lit "nil")); [|destruct (bytes_eqb _ (lit "true")); [|destruct (bytes_eqb _ (lit "false"))]]);
        intros H; injection H as _ <-; cbn; lia.
    + destruct (_ =? cur s); [discriminate|]. destruct (_ =? _ - 1); [discriminate|].
      destruct (is_colon _); [destruct (_ =? 0); [discriminate|]; destruct (is_colon _); [discriminate|]|];
        intros H; injection H as _ <-; cbn; lia.
  - destruct (is_colon _); [destruct (_ =? 0); [discriminate|]; destruct (is_colon _); [discriminate|]|];
      try (destruct (bytes_eqb _ (lit "nil")); [|destruct (bytes_eqb _ (lit "true")); [|destruct (bytes_eqb _ (lit "false"))]]);
      intros H; injection H as _ <-; cbn; lia.
Qed.

Lemma oct_run_ge f : forall p acc n v n' q, oct_run m e f p acc n = (v, n', q) -> p <= q.
Proof.
  induction f as [|f IH]; intros p acc n v n' q H; cbn [oct_run] in H; [injection H as _ _ <-; lia|].
  destruct ((p <? e) && is_oct (m p)); [|injection H as _ _ <-; lia]. apply IH in H. lia.
Qed.

Lemma tp_character s v s' : read_character c m e s = Ret (Some v) s' -> cur s < cur s'.
Proof.
  cbv beta iota zeta delta [read_character fail].
  destruct (e <=? cur s + 1); [discriminate|].
  (* every way to a value sets the cursor to a position behind cur s + 1 *)
  assert (Hfin : forall (cp : Z) (q : N) r, cur s < q ->
     (if (cp >? 1114111)%Z then Ret None (with_error s ECharacter MStatic (cur s) q)
      else if (q <? e) && negb (is_delim (m q)) then Ret None (with_error s ECharacter MStatic (cur s) q)
      else Ret (Some (mk (VChar cp) (cur s) q)) (with_cur s q)) = Ret (Some v) r -> cur s < cur r).
  { intros cp q r Hq. destruct (cp >? 1114111)%Z; [discriminate|]. destruct ((q <? e) && negb (is_delim (m q))); [discriminate|].
    intros H. injection H as _ <-. cbn. exact Hq. }
  repeat match goal with
         | |- context [match_at m e ?p ?w] => destruct (match_at m e p w)
         end;
  try (intros H; apply Hfin in H; [exact H|cbn; lia]).
  all: repeat match goal with
         | |- context [if clj c then ?a else ?b] => destruct (clj c)
         end; cbn [andb].
  all: repeat match goal with
         | |- context [match_at m e ?p ?w] => destruct (match_at m e p w)
         end;
  try (intros H; apply Hfin in H; [exact H|cbn; lia]).
  all: try (destruct (is_byte (m (cur s + 1)) "o" && (cur s + 1 + 1 <? e) && is_dig (m (cur s + 1 + 1)))).
  all: try (unfold octal_escape; destruct (e <=? cur s + 1 + 1); [discriminate|];
            destruct (oct_run m e 3 (cur s + 1 + 1) 0%Z 0) as [[ov on] oq] eqn:Ho; apply oct_run_ge in Ho;
            destruct (on =? 0); [discriminate|];
            destruct ((oq <? e) && (is_byte (m oq) "8" || is_byte (m oq) "9")); [discriminate|];
            destruct (ov >? 255)%Z; [discriminate|]; intros H; apply Hfin in H; [exact H|lia]).
  all: destruct (is_byte (m (cur s + 1)) "u" && (cur s + 1 + 1 <? e) && is_hex (m (cur s + 1 + 1))).
  all: try (destruct (unicode_escape c m e (cur s + 1 + 1)) as [[ucp un]|]; [|discriminate];
            intros H; apply Hfin in H; [exact H|lia]).
  all: destruct (single_char_ok c (bz (m (cur s + 1)))); [|discriminate]; intros H; apply Hfin in H; [exact H|lia].
Qed.

Lemma tp_symbolic s v s' : read_symbolic m e s = Ret (Some v) s' -> cur s < cur s'.
Proof.
  unfold read_symbolic, fail.
  destruct (match_at m e (cur s + 2) (lit "Inf")); [intros H; injection H as _ <-; cbn; lia|].
  destruct (match_at m e (cur s + 2) (lit "-Inf")); [intros H; injection H as _ <-; cbn; lia|].
  destruct (match_at m e (cur s + 2) (lit "NaN")); [intros H; injection H as _ <-; cbn; lia|discriminate].
Qed.

Lemma tp_number s v s' : number_start m e (cur s) -> read_number_tok c m e s = Ret (Some v) s' -> cur s < cur s'.
Proof.
  intros Hs. unfold read_number_tok. destruct (read_number c m e (cur s)) as [nv q|q|site] eqn:Hr; try discriminate.
  intros H. injection H as _ <-. cbn. now apply (read_number_progress c m e (cur s) nv q).
Qed.

Lemma skip_ws_ge_all p : p <= skip_ws m p e.
Proof.
  destruct (N.le_gt_cases p e) as [H|H]; [now apply skip_ws_ge|].
  unfold skip_ws. replace (N.to_nat (e - p)) with 0%nat by lia. cbn [skip_ws_chunked].
  replace (p <? e) with false by (symmetry; apply N.ltb_ge; lia). lia.
Qed.

(* ------------------------------------------------------------------ progress of the readers *)
Definition adv_ok (s : pst) (r : res (option node)) : Prop :=
  match r with
  | Ret (Some _) s' => cur s < cur s' /\ cur s < e
  | Ret None s' => is_ok s' = true -> cur s <= cur s'
  | _ => True
  end.

Notation vbody := (value_body c m e).
Notation sbody := (seq_body c xe xh sort m e).
Notation ebody := elems_body.
Notation mbody := (map_body c xe xh sort m e).
Notation enbody := entries_body.
Notation nsbody := (nsmap_body m e).
Notation tbody := (tagged_body o handler m e).
Notation mtbody := (meta_body c xe).

Definition Av (rv : rdr) := forall s, is_ok s = true -> adv_ok s (rv s).
Definition Aseq (rseq : kind -> N -> rdr) := forall k sk s, is_ok s = true -> cur s < e -> 1 <= sk -> adv_ok s (rseq k sk s).
Definition Ael (relems : pst -> list node -> res (option (list node))) :=
  forall s acc els s', is_ok s = true -> relems s acc = Ret (Some els) s' -> is_ok s' = true -> cur s <= cur s'.
Definition Amap (rmap : pst -> N -> option bytes -> res (option node)) :=
  forall s st ns, is_ok s = true -> cur s < e -> adv_ok s (rmap s st ns).
Definition Aen (ren : pst -> N -> option bytes -> list node -> list node -> res (option (list node * list node))) :=
  forall s st ns ks vs r s', is_ok s = true -> depth s <> 0 -> ren s st ns ks vs = Ret (Some r) s' -> cur s <= cur s'.
Definition Ain (rd : rdr) := forall s, is_ok s = true -> cur s < e -> adv_ok s (rd s).

Notation Gv := (Gv e). Notation Gel := (Gel e). Notation Gen := (Gen e). Notation Gseq := (Gseq e). Notation Gmap := (Gmap e).

Lemma elems_body_adv rv relems : Gv rv -> Av rv -> Ael relems -> Ael (ebody rv relems).
Proof.
  intros Gr Ar Ae s acc els s' Hok H Hok'. unfold elems_body in H.
  pose proof (Gr s Hok) as G1. pose proof (Ar s Hok) as A1.
  destruct (rv s) as [[v|] s1| | |]; try discriminate; cbn in G1, A1.
  - destruct G1 as [Hok1 _]. pose proof (Ae s1 (v :: acc) els s' Hok1 H Hok'). lia.
  - injection H as _ <-. now apply A1.
Qed.

Lemma seq_body_adv relems : Gel relems -> Ael relems -> Aseq (sbody relems).
Proof.
  intros Ge Ae k sk s Hok Hc Hsk. unfold seq_body. cbv zeta.
  set (s1 := with_depth (with_cur s (cur s + sk)) (depth s + 1)).
  assert (Hok1 : is_ok s1 = true) by (unfold s1; st; assumption).
  pose proof (Ge s1 [] Hok1) as G1. pose proof (Ae s1 []) as A1.
  destruct (relems s1 []) as [[els|] s2| | |]; cbn in G1 |- *; try tauto.
  destruct (is_ok s2) eqn:Hok2; cbn [negb].
  - specialize (A1 els s2 Hok1 eq_refl Hok2). unfold s1 in A1. st.
    destruct (e <=? cur s2); [exact I|].
    destruct (negb (Byte.eqb (m (cur s2)) (closer_of k))); [cbn; st; intros H; discriminate|].
    destruct k; try (cbn; st; split; [lia|assumption]).
    match goal with |- context [match ?X with (_, _) => _ end] => destruct X as [dup els'] end.
    destruct dup; cbn; st; [intros H; discriminate|split; [lia|assumption]].
  - cbn. st. destruct (is_eof s2); cbn; st; [intros H; discriminate|rewrite Hok2; intros H; discriminate].
Qed.

Lemma entries_body_adv rv ren : Gv rv -> Av rv -> Aen ren -> Aen (enbody rv ren).
Proof.
  intros Gr Ar Ae s st0 ns ks vs r s' Hok Hd H. unfold entries_body in H.
  pose proof (Gr s Hok) as G1. pose proof (Ar s Hok) as A1.
  destruct (rv s) as [[k|] s1| | |]; try discriminate; cbn in G1, A1.
  - destruct G1 as [Hok1 Hd1]. destruct A1 as [A1 _].
    pose proof (Gr s1 Hok1) as G2. pose proof (Ar s1 Hok1) as A2.
    destruct (rv s1) as [[v|] s2| | |]; try discriminate; cbn in G2, A2.
    destruct G2 as [Hok2 Hd2]. destruct A2 as [A2 _].
    assert (Hd2' : depth s2 <> 0) by congruence.
    pose proof (Ae s2 st0 ns _ _ r s' Hok2 Hd2' H). lia.
  - destruct (is_ok s1) eqn:Hok1; cbn [negb] in H; [|discriminate]. injection H as _ <-. now apply A1.
Qed.

Lemma map_body_adv ren : Gen ren -> Aen ren -> Amap (mbody ren).
Proof.
  intros Ge Ae s st0 ns Hok Hc. unfold map_body. cbv zeta.
  set (s1 := with_depth (with_cur s (cur s + 1)) (depth s + 1)).
  assert (Hok1 : is_ok s1 = true) by (unfold s1; st; assumption).
  assert (Hd1 : depth s1 <> 0) by (unfold s1; st; lia).
  pose proof (Ge s1 st0 ns [] [] Hok1 Hd1) as G1. pose proof (Ae s1 st0 ns [] []) as A1.
  destruct (ren s1 st0 ns [] []) as [[[ks vs]|] s2| | |]; cbn in G1 |- *; try tauto.
  - specialize (A1 (ks, vs) s2 Hok1 Hd1 eq_refl). unfold s1 in A1. st.
    destruct (e <=? cur s2); [cbn; st; intros H; discriminate|].
    destruct (negb (Byte.eqb (m (cur s2)) "}")); [cbn; st; intros H; discriminate|].
    match goal with |- context [match ?X with (_, _) => _ end] => destruct X as [dup ks'] end.
    destruct dup; cbn; st; [intros H; discriminate|split; [lia|assumption]].
  - destruct G1 as [_ G1]. rewrite G1. intros H; discriminate.
Qed.

Lemma nsmap_body_adv rv rmap : Gv rv -> Av rv -> Amap rmap -> Ain (nsbody rv rmap).
Proof.
  intros Gr Ar Am s Hok Hc. unfold nsmap_body. cbv zeta.
  assert (Hok0 : is_ok (with_cur s (cur s + 1)) = true) by (st; assumption).
  pose proof (Gr _ Hok0) as G1. pose proof (Ar _ Hok0) as A1.
  destruct (rv (with_cur s (cur s + 1))) as [[kw|] s1| | |]; cbn in G1, A1 |- *; try tauto.
  - destruct G1 as [Hok1 Hd1]. destruct A1 as [A1 _]. st.
    destruct (nval kw); try (cbn; st; intros H; discriminate).
    destruct ns; [cbn; st; intros H; discriminate|].
    pose proof (skip_ws_ge_all (cur s1)) as Hq.
    match goal with |- adv_ok _ (if ?b then _ else _) => destruct b eqn:Hb end; [cbn; st; intros H; discriminate|].
    apply orb_false_iff in Hb. destruct Hb as [Hb _]. apply N.leb_gt in Hb.
    set (s2 := with_ext (with_cur s1 (skip_ws m (cur s1) e)) "nsmap").
    assert (Hok2 : is_ok s2 = true) by (unfold s2; st; assumption).
    assert (Hc2 : cur s2 < e) by (unfold s2; st; assumption).
    pose proof (Am s2 (cur s) (Some name) Hok2 Hc2) as A2. unfold s2 in A2.
    destruct (rmap _ (cur s) (Some name)) as [[v|] s3| | |]; cbn in A2 |- *; st; try tauto.
    + destruct A2 as [A2 _]. split; [lia|assumption].
    + intros H. specialize (A2 H). lia.
  - intros H. specialize (A1 H). st. lia.
Qed.

Lemma tagged_body_adv rv : Gv rv -> Av rv -> Ain (tbody rv).
Proof.
  intros Gr Ar s Hok Hc. unfold tagged_body. cbv zeta.
  destruct (e <=? cur (with_cur s (cur s + 1))); [cbn; st; intros H; discriminate|].
  destruct (tag_adjacent_ws _); [cbn; st; intros H; discriminate|].
  set (s1 := with_cur s (cur s + 1)).
  assert (Hok1 : is_ok s1 = true) by (unfold s1; st; assumption).
  pose proof (tok_identifier m e s1 Hok1) as T1.
  destruct (read_identifier m e s1) as [[tv|] s2| | |] eqn:Hid; cbn in T1 |- *; try tauto.
  2:{ destruct T1 as [_ T1]. rewrite T1. intros H; discriminate. }
  destruct T1 as [Hok2 _].
  assert (Hc2 : cur s1 < cur s2).
  { apply (tp_identifier s1 tv s2); [|exact Hid]. unfold s1. st. lia. }
  unfold s1 in Hc2. st.
  destruct (nval tv); try (cbn; st; intros H; discriminate).
  assert (Hok3 : is_ok (with_depth s2 (depth s + 1)) = true) by (st; assumption).
  pose proof (Gr _ Hok3) as G3. pose proof (Ar _ Hok3) as A3.
  destruct (rv (with_depth s2 (depth s + 1))) as [[v|] s3| | |]; cbn in G3, A3 |- *; st; try tauto.
  - destruct A3 as [A3 _].
    destruct (has_registry o && negb (discard s3)).
    + destruct (lookup_tag o _) as [h|].
      * destruct (handler h v) as [[r|] ms]; cbn; st; [split; [lia|assumption]|intros H; discriminate].
      * destruct (reader_mode o =? READER_UNWRAP)%Z; [cbn; st; split; [lia|assumption]|].
        destruct (reader_mode o =? READER_ERROR)%Z; cbn; st; [intros H; discriminate|split; [lia|assumption]].
    + cbn. st. split; [lia|assumption].
  - destruct (is_ok s3) eqn:Hk; cbn; st; [intros H; discriminate|rewrite Hk; intros H; discriminate].
Qed.

Lemma meta_body_adv rv : Gv rv -> Av rv -> Ain (mtbody rv).
Proof.
  intros Gr Ar s Hok Hc. unfold meta_body. cbv zeta.
  assert (Hok0 : is_ok (with_ext (with_cur s (cur s + 1)) "metadata") = true) by (st; assumption).
  pose proof (Gr _ Hok0) as G1. pose proof (Ar _ Hok0) as A1.
  destruct (rv (with_ext (with_cur s (cur s + 1)) "metadata")) as [[a|] s1| | |]; cbn in G1, A1 |- *; st; try tauto.
  - destruct G1 as [Hok1 _]. destruct A1 as [A1 _].
    destruct (negb (meta_ok_annotation (nval a))); [cbn; st; intros H; discriminate|].
    pose proof (Gr _ Hok1) as G2. pose proof (Ar _ Hok1) as A2.
    destruct (rv s1) as [[form|] s2| | |]; cbn in G2, A2 |- *; st; try tauto.
    + destruct A2 as [A2 _].
      destruct (negb (meta_ok_target (nval form))); [cbn; st; intros H; discriminate|].
      destruct (meta_entries a) as [nk nv]. cbn. split; [lia|assumption].
    + destruct (is_ok s2) eqn:Hk; cbn; st; [intros H; discriminate|rewrite Hk; intros H; discriminate].
  - destruct (is_ok s1) eqn:Hk; cbn; st; [intros H; discriminate|rewrite Hk; intros H; discriminate].
Qed.

(* ---- the dispatcher ---- *)
Definition adv_from (p0 : N) (r : res (option node)) : Prop :=
  match r with
  | Ret (Some _) s' => p0 < cur s' /\ p0 < e
  | Ret None s' => is_ok s' = true -> p0 <= cur s'
  | _ => True
  end.
Lemma adv_ok_from s r : adv_ok s r <-> adv_from (cur s) r.
Proof. destruct r as [[v|] s'| | |]; cbn; tauto. Qed.
Lemma adv_from_mono p0 p r : p0 <= p -> p0 < e -> adv_from p r -> adv_from p0 r.
Proof. intros H1 H2. destruct r as [[v|] s'| | |]; cbn; try tauto; [intros [H3 H4]; split; lia|intros H3 H4; specialize (H3 H4); lia]. Qed.
Lemma adv_from_leave p0 r : adv_from p0 r -> adv_from p0 (match r with Ret v s => Ret v (leave s) | x => x end).
Proof. destruct r as [[v|] s'| | |]; cbn; st; tauto. Qed.

Lemma tok_adv s r : tok_good (depth s) r -> cur s < e ->
  (forall v s', r = Ret (Some v) s' -> cur s < cur s') -> adv_from (cur s) r.
Proof.
  intros T Hc Hp. destruct r as [[v|] s'| | |]; cbn in T |- *; try tauto.
  - split; [now apply (Hp v s')|assumption].
  - destruct T as [_ T]. rewrite T. intros H; discriminate.
Qed.

Lemma value_body_adv rv rseq rmap rns rtag rmeta :
  Gv rv -> Av rv -> Aseq rseq -> Amap rmap -> Ain rns -> Ain rtag -> Ain rmeta ->
  Av (vbody rv rseq rmap rns rtag rmeta).
Proof.
  intros Gr Ar As Am An At Amt s0 Hok0. apply adv_ok_from. unfold value_body. cbv zeta. apply adv_from_leave.
  replace (cur s0) with (cur (enter s0)) by reflexivity.
  assert (Hok : is_ok (enter s0) = true) by (st; assumption).
  generalize dependent (enter s0). clear s0 Hok0. intros s0 Hok0.
  destruct (cur s0 <? e) eqn:Hlt.
  2:{ cbn. st. intros H; discriminate. }
  apply N.ltb_lt in Hlt.
  assert (Hpre : forall s, is_ok s = true -> cur s0 <= cur s -> cur s < e ->
            adv_from (cur s0)
              (let s := with_start s (cur s) in
               let p := cur s in let ch := m p in let d := dispatch_of c ch in
               if (d =? ct_string c)%Z then read_string c m e s
               else if (d =? ct_char c)%Z then read_character c m e s
               else if (d =? ct_list c)%Z then rseq KList 1 s
               else if (d =? ct_vector c)%Z then rseq KVector 1 s
               else if (d =? ct_map c)%Z then rmap s p None
               else if (d =? ct_hash c)%Z then
                 if (p + 1 <? e) && is_byte (m (p + 1)) "{" then rseq KSet 2 s
                 else if (p + 1 <? e) && is_byte (m (p + 1)) "#" then read_symbolic m e s
                 else if (p + 1 <? e) && is_byte (m (p + 1)) "_" then
                   let old := discard s in
                   match rv (with_discard (with_cur s (p + 2)) true) with
                   | Ret dv s1 =>
                     let s2 := with_discard s1 old in
                     match dv with
                     | None => if is_ok s2 then Ret None (err_at s2 EDiscard p (p + 2)) else Ret None s2
                     | Some _ => if is_ok s2 then rv s2 else Ret None s2
                     end
                   | x => x
                   end
                 else if clj c && (p + 1 <? e) && is_byte (m (p + 1)) ":" then rns s
                 else rtag s
               else if (d =? ct_sign c)%Z then
                 if (p + 1 <? e) && Scan.is_digit (m (p + 1)) then read_number_tok c m e s
                 else read_identifier m e s
               else if (d =? ct_digit c)%Z then read_number_tok c m e s
               else if (d =? ct_delim c)%Z then
                 if depth s =? 0 then Ret None (with_err s EUnmatched MStatic) else Ret None s
               else if clj c && (d =? ct_meta c)%Z then rmeta s
               else read_identifier m e s)).
  { intros s Hs Hge Hc. cbv zeta.
    set (s' := with_start s (cur s)).
    assert (Hs' : is_ok s' = true) by (unfold s'; st; assumption).
    assert (Hc' : cur s' = cur s) by reflexivity. rewrite Hc'.
    assert (Hlt' : cur s' < e) by (rewrite Hc'; assumption).
    assert (MN : forall r, adv_from (cur s') r -> adv_from (cur s0) r).
    { intros r Hr. apply (adv_from_mono (cur s0) (cur s')); [rewrite Hc'; assumption|assumption|exact Hr]. }
    assert (FO : forall r, adv_ok s' r -> adv_from (cur s0) r) by (intros r Hr; apply MN; now apply adv_ok_from).
    repeat match goal with
           | |- adv_from _ (if ?b then _ else _) => destruct b eqn:?
           end.
    - apply MN, tok_adv; [now apply tok_string|assumption|]. intros v s1 H. apply (tp_string s' v s1); assumption.
    - apply MN, tok_adv; [now apply tok_character|assumption|]. intros v s1 H. now apply (tp_character s' v s1).
    - apply FO, As; [assumption|assumption|lia].
    - apply FO, As; [assumption|assumption|lia].
    - apply FO. rewrite <- Hc'. apply Am; assumption.
    - apply FO, As; [assumption|assumption|lia].
    - apply MN, tok_adv; [now apply tok_symbolic|assumption|]. intros v s1 H. now apply (tp_symbolic s' v s1).
    - (* discard *)
      match goal with H : (_ <? e) && _ = true |- _ => apply andb_true_iff in H; destruct H as [Hp1 _]; apply N.ltb_lt in Hp1 end.
      assert (Hsd : is_ok (with_discard (with_cur s' (cur s + 2)) true) = true) by (st; assumption).
      pose proof (Gr _ Hsd) as G1. pose proof (Ar _ Hsd) as A1. st.
      destruct (rv (with_discard (with_cur s' (cur s + 2)) true)) as [[dv|] s1| | |]; cbn in G1, A1 |- *; try tauto.
      + destruct G1 as [Hok1 _]. destruct A1 as [A1 _]. st. rewrite Hok1.
        assert (Hs2 : is_ok (with_discard s1 (discard s')) = true) by (st; assumption).
        pose proof (Ar _ Hs2) as A2. apply adv_ok_from in A2. st.
        apply (adv_from_mono (cur s0) (cur s1)); [lia|assumption|exact A2].
      + st. destruct (is_ok s1) eqn:Hk; cbn; st; [intros H; discriminate|rewrite Hk; intros H; discriminate].
    - apply FO, An; assumption.
    - apply FO, At; assumption.
    - (* sign followed by a digit *)
      apply MN, tok_adv; [now apply tok_number|assumption|]. intros v s1 H. apply (tp_number s' v s1); [|exact H].
      match goal with H : (_ <? e) && Scan.is_digit _ = true |- _ => apply andb_true_iff in H; destruct H as [Hp1 Hd1]; apply N.ltb_lt in Hp1 end.
      split; [assumption|]. right. rewrite Hc'. split; [|split; assumption].
      apply sign_class. assumption.
    - apply MN, tok_adv; [now apply tok_identifier|assumption|]. intros v s1 H. apply (tp_identifier s' v s1); [lia|exact H].
    - (* digit *)
      apply MN, tok_adv; [now apply tok_number|assumption|]. intros v s1 H. apply (tp_number s' v s1); [|exact H].
      split; [assumption|]. left. rewrite Hc'. apply digit_class. assumption.
    - cbn. st. intros H; discriminate.
    - cbn. st. intros _. assumption.
    - apply FO, Amt; assumption.
    - apply MN, tok_adv; [now apply tok_identifier|assumption|]. intros v s1 H. apply (tp_identifier s' v s1); [lia|exact H]. }
  destruct (prefilter (bz (m (cur s0)))).
  - pose proof (skip_ws_ge_all (cur s0)) as Hq.
    destruct (skip_ws m (cur s0) e <? e) eqn:Hq2.
    + apply N.ltb_lt in Hq2. apply (Hpre (with_cur s0 (skip_ws m (cur s0) e))); st; assumption.
    + cbn. st. intros H; discriminate.
  - apply (Hpre s0); [assumption|lia|assumption].
Qed.

(* ---- all eight readers, every fuel ---- *)
Notation RG := (readers_good c o handler xe xh sort m e).
Theorem readers_adv : forall f,
  Av (read_value c o handler xe xh sort m e f) /\ Aseq (read_seq c o handler xe xh sort m e f) /\
  Ael (read_elems c o handler xe xh sort m e f) /\ Amap (read_map c o handler xe xh sort m e f) /\
  Aen (read_entries c o handler xe xh sort m e f) /\ Ain (read_nsmap c o handler xe xh sort m e f) /\
  Ain (read_tagged c o handler xe xh sort m e f) /\ Ain (read_meta c o handler xe xh sort m e f).
Proof.
  induction f as [|f (IHv & IHs & IHe & IHm & IHen & IHn & IHt & IHmt)].
  - repeat split; intro; intros; try exact I; try discriminate.
  - destruct (RG f) as (Gv0 & Gs0 & Ge0 & Gm0 & Gen0 & Gn0 & Gt0 & Gmt0).
    repeat split.
    + apply value_body_adv; assumption.
    + apply seq_body_adv; assumption.
    + apply elems_body_adv; assumption.
    + apply map_body_adv; assumption.
    + apply entries_body_adv; assumption.
    + apply nsmap_body_adv; assumption.
    + apply tagged_body_adv; assumption.
    + apply meta_body_adv; assumption.
Qed.

(* ------------------------------------------------------------------ enough fuel is never exhausted *)
Definition rem (s : pst) : nat := N.to_nat (e - cur s).

Definition Tv (f : nat) (rv : rdr) := forall s, is_ok s = true -> (4 * rem s + 8 <= f)%nat -> rv s <> OutOfFuel.
Definition Tseq (f : nat) (rseq : kind -> N -> rdr) :=
  forall k sk s, is_ok s = true -> cur s < e -> 1 <= sk -> (4 * rem s + 7 <= f)%nat -> rseq k sk s <> OutOfFuel.
Definition Tel (f : nat) (relems : pst -> list node -> res (option (list node))) :=
  forall s acc, is_ok s = true -> (4 * rem s + 9 <= f)%nat -> relems s acc <> OutOfFuel.
Definition Tmap (f : nat) (rmap : pst -> N -> option bytes -> res (option node)) :=
  forall s st ns, is_ok s = true -> cur s < e -> (4 * rem s + 7 <= f)%nat -> rmap s st ns <> OutOfFuel.
Definition Ten (f : nat) (ren : pst -> N -> option bytes -> list node -> list node -> res (option (list node * list node))) :=
  forall s st ns ks vs, is_ok s = true -> depth s <> 0 -> (4 * rem s + 9 <= f)%nat -> ren s st ns ks vs <> OutOfFuel.
Definition Tin (f : nat) (rd : rdr) := forall s, is_ok s = true -> cur s < e -> (4 * rem s + 7 <= f)%nat -> rd s <> OutOfFuel.

Lemma rem_le s s' : cur s <= cur s' -> (rem s' <= rem s)%nat.
Proof. unfold rem. lia. Qed.
Lemma rem_lt s s' : cur s < cur s' -> cur s < e -> (rem s' + 1 <= rem s)%nat.
Proof. unfold rem. lia. Qed.

Lemma elems_body_term f rv relems : Gv rv -> Av rv -> Tv f rv -> Tel f relems -> Tel (S f) (ebody rv relems).
Proof.
  intros Gr Ar Tr Te s acc Hok Hf. unfold elems_body.
  pose proof (Gr s Hok) as G1. pose proof (Ar s Hok) as A1. pose proof (Tr s Hok ltac:(lia)) as T1.
  destruct (rv s) as [[v|] s1| | |]; try discriminate; try congruence; cbn in G1, A1.
  destruct G1 as [Hok1 _]. destruct A1 as [A1 A2]. apply Te; [assumption|]. pose proof (rem_lt s s1 A1 A2). lia.
Qed.

Lemma seq_body_term f relems : Gel relems -> Tel f relems -> Tseq (S f) (sbody relems).
Proof.
  intros Ge Te k sk s Hok Hc Hsk Hf. unfold seq_body. cbv zeta.
  set (s1 := with_depth (with_cur s (cur s + sk)) (depth s + 1)).
  assert (Hok1 : is_ok s1 = true) by (unfold s1; st; assumption).
  assert (Hr : (rem s1 + 1 <= rem s)%nat) by (unfold rem, s1; st; lia).
  pose proof (Te s1 [] Hok1 ltac:(lia)) as T1.
  destruct (relems s1 []) as [[els|] s2| | |]; try discriminate; try congruence.
  destruct (negb (is_ok s2)); [discriminate|]. destruct (e <=? cur s2); [discriminate|].
  destruct (negb (Byte.eqb (m (cur s2)) (closer_of k))); [discriminate|].
  destruct k; try discriminate.
  match goal with |- context [match ?X with (_, _) => _ end] => destruct X as [dup els'] end. destruct dup; discriminate.
Qed.

Lemma entries_body_term f rv ren : Gv rv -> Av rv -> Tv f rv -> Ten f ren -> Ten (S f) (enbody rv ren).
Proof.
  intros Gr Ar Tr Te s st0 ns ks vs Hok Hd Hf. unfold entries_body.
  pose proof (Gr s Hok) as G1. pose proof (Ar s Hok) as A1. pose proof (Tr s Hok ltac:(lia)) as T1.
  destruct (rv s) as [[k|] s1| | |]; try discriminate; try congruence; cbn in G1, A1.
  - destruct G1 as [Hok1 Hd1]. destruct A1 as [A1 A1'].
    pose proof (rem_lt s s1 A1 A1') as R1.
    pose proof (Gr s1 Hok1) as G2. pose proof (Ar s1 Hok1) as A2. pose proof (Tr s1 Hok1 ltac:(lia)) as T2.
    destruct (rv s1) as [[v|] s2| | |]; try discriminate; try congruence; cbn in G2, A2.
    destruct G2 as [Hok2 Hd2]. destruct A2 as [A2 _]. pose proof (rem_le s1 s2 ltac:(lia)) as R2.
    apply Te; [assumption|congruence|lia].
  - destruct (negb (is_ok s1)); discriminate.
Qed.

Lemma map_body_term f ren : Gen ren -> Ten f ren -> Tmap (S f) (mbody ren).
Proof.
  intros Ge Te s st0 ns Hok Hc Hf. unfold map_body. cbv zeta.
  set (s1 := with_depth (with_cur s (cur s + 1)) (depth s + 1)).
  assert (Hok1 : is_ok s1 = true) by (unfold s1; st; assumption).
  assert (Hd1 : depth s1 <> 0) by (unfold s1; st; lia).
  assert (Hr : (rem s1 + 1 <= rem s)%nat) by (unfold rem, s1; st; lia).
  pose proof (Te s1 st0 ns [] [] Hok1 Hd1 ltac:(lia)) as T1.
  destruct (ren s1 st0 ns [] []) as [[[ks vs]|] s2| | |]; try discriminate; try congruence.
  destruct (e <=? cur s2); [discriminate|]. destruct (negb (Byte.eqb (m (cur s2)) "}")); [discriminate|].
  match goal with |- context [match ?X with (_, _) => _ end] => destruct X as [dup ks'] end. destruct dup; discriminate.
Qed.

Lemma nsmap_body_term f rv rmap : Gv rv -> Av rv -> Tv f rv -> Tmap f rmap -> Tin (S f) (nsbody rv rmap).
Proof.
  intros Gr Ar Tr Tm s Hok Hc Hf. unfold nsmap_body. cbv zeta.
  set (s0 := with_cur s (cur s + 1)).
  assert (Hok0 : is_ok s0 = true) by (unfold s0; st; assumption).
  assert (Hr0 : (rem s0 + 1 <= rem s)%nat) by (unfold rem, s0; st; lia).
  pose proof (Gr _ Hok0) as G1. pose proof (Ar _ Hok0) as A1. pose proof (Tr s0 Hok0 ltac:(lia)) as T1.
  destruct (rv s0) as [[kw|] s1| | |]; try discriminate; try congruence; cbn in G1, A1.
  destruct G1 as [Hok1 _]. destruct A1 as [A1 _]. unfold s0 in A1. st.
  destruct (nval kw); try discriminate. destruct ns; [discriminate|].
  pose proof (skip_ws_ge_all (cur s1)) as Hq.
  match goal with |- (if ?b then _ else _) <> _ => destruct b eqn:Hb end; [discriminate|].
  apply orb_false_iff in Hb. destruct Hb as [Hb _]. apply N.leb_gt in Hb.
  apply Tm; [st; assumption|st; assumption|]. unfold rem in *. st. lia.
Qed.

Lemma read_identifier_ret s : read_identifier m e s <> OutOfFuel.
Proof.
  unfold read_identifier, fail. destruct (split_identifier m e (cur s)) as [[[len ns] [a b]]|]; [|discriminate].
  destruct ns as [[x y]|]; repeat match goal with |- (if ?b then _ else _) <> _ => destruct b end; discriminate.
Qed.

Lemma tagged_body_term f rv : Gv rv -> Tv f rv -> Tin (S f) (tbody rv).
Proof.
  intros Gr Tr s Hok Hc Hf. unfold tagged_body. cbv zeta.
  destruct (e <=? cur (with_cur s (cur s + 1))); [discriminate|].
  destruct (tag_adjacent_ws _); [discriminate|].
  set (s1 := with_cur s (cur s + 1)).
  assert (Hok1 : is_ok s1 = true) by (unfold s1; st; assumption).
  pose proof (tok_identifier m e s1 Hok1) as T1. pose proof (read_identifier_ret s1) as R1.
  destruct (read_identifier m e s1) as [[tv|] s2| | |] eqn:Hid; try discriminate; try congruence; cbn in T1.
  destruct T1 as [Hok2 _].
  assert (Hc2 : cur s1 < cur s2) by (apply (tp_identifier s1 tv s2); [unfold s1; st; lia|exact Hid]).
  unfold s1 in Hc2. st.
  destruct (nval tv); try discriminate.
  assert (Hok3 : is_ok (with_depth s2 (depth s + 1)) = true) by (st; assumption).
  pose proof (Tr _ Hok3) as T3. assert (Hr : (4 * rem (with_depth s2 (depth s + 1)) + 8 <= f)%nat) by (unfold rem in *; st; lia).
  specialize (T3 Hr).
  destruct (rv (with_depth s2 (depth s + 1))) as [[v|] s3| | |]; try discriminate; try congruence.
  - repeat match goal with
           | |- (if ?b then _ else _) <> _ => destruct b
           | |- match ?X with _ => _ end <> _ => destruct X
           end; discriminate.
  - destruct (is_ok (with_depth s3 (depth s))); discriminate.
Qed.

Lemma meta_body_term f rv : Gv rv -> Av rv -> Tv f rv -> Tin (S f) (mtbody rv).
Proof.
  intros Gr Ar Tr s Hok Hc Hf. unfold meta_body. cbv zeta.
  set (s0 := with_ext (with_cur s (cur s + 1)) "metadata").
  assert (Hok0 : is_ok s0 = true) by (unfold s0; st; assumption).
  assert (Hr0 : (rem s0 + 1 <= rem s)%nat) by (unfold rem, s0; st; lia).
  pose proof (Gr _ Hok0) as G1. pose proof (Ar _ Hok0) as A1. pose proof (Tr s0 Hok0 ltac:(lia)) as T1.
  destruct (rv s0) as [[a|] s1| | |]; try discriminate; try congruence; cbn in G1, A1.
  - destruct G1 as [Hok1 _]. destruct A1 as [A1 _].
    destruct (negb (meta_ok_annotation (nval a))); [discriminate|].
    assert (Hcs0 : cur s0 = cur s + 1) by reflexivity.
    pose proof (Tr s1 Hok1) as T2. assert (Hr1 : (4 * rem s1 + 8 <= f)%nat) by (pose proof (rem_le s0 s1 ltac:(lia)); lia).
    specialize (T2 Hr1).
    destruct (rv s1) as [[form|] s2| | |]; try discriminate; try congruence.
    + destruct (negb (meta_ok_target (nval form))); [discriminate|]. destruct (meta_entries a). discriminate.
    + destruct (is_ok s2); discriminate.
  - destruct (is_ok s1); discriminate.
Qed.

Ltac retcases :=
  repeat match goal with
         | |- (if ?b then _ else _) <> _ => destruct b
         | |- match ?X with _ => _ end <> _ => destruct X
         | |- (let '(_, _) := ?X in _) <> _ => destruct X
         end; discriminate.

Lemma read_string_ret s : read_string c m e s <> OutOfFuel.
Proof. unfold read_string, read_plain_string, fail. retcases. Qed.
Lemma read_character_ret s : read_character c m e s <> OutOfFuel.
Proof. cbv beta iota zeta delta [read_character fail]. retcases. Qed.
Lemma read_symbolic_ret s : read_symbolic m e s <> OutOfFuel.
Proof. unfold read_symbolic, fail. retcases. Qed.
Lemma read_number_ret s : read_number_tok c m e s <> OutOfFuel.
Proof. unfold read_number_tok. destruct (read_number c m e (cur s)); discriminate. Qed.

Lemma leave_ret_term (r : res (option node)) : r <> OutOfFuel -> (match r with Ret v s => Ret v (leave s) | x => x end) <> OutOfFuel.
Proof. destruct r; intros H; try discriminate; congruence. Qed.

Lemma value_body_term f rv rseq rmap rns rtag rmeta :
  Gv rv -> Av rv -> Tv f rv -> Tseq f rseq -> Tmap f rmap -> Tin f rns -> Tin f rtag -> Tin f rmeta ->
  Tv (S f) (vbody rv rseq rmap rns rtag rmeta).
Proof.
  intros Gr Ar Tr Ts Tm Tn Tt Tmt s0 Hok0 Hf0. unfold value_body. cbv zeta. apply leave_ret_term.
  assert (Hf : (4 * rem (enter s0) + 8 <= S f)%nat) by exact Hf0.
  assert (Hok : is_ok (enter s0) = true) by (st; assumption).
  generalize dependent (enter s0). clear s0 Hok0 Hf0. intros s0 Hf Hok0.
  destruct (cur s0 <? e) eqn:Hlt; [|discriminate].
  apply N.ltb_lt in Hlt.
  assert (Hpre : forall s, is_ok s = true -> cur s0 <= cur s -> cur s < e ->
              (let s := with_start s (cur s) in
               let p := cur s in let ch := m p in let d := dispatch_of c ch in
               if (d =? ct_string c)%Z then read_string c m e s
               else if (d =? ct_char c)%Z then read_character c m e s
               else if (d =? ct_list c)%Z then rseq KList 1 s
               else if (d =? ct_vector c)%Z then rseq KVector 1 s
               else if (d =? ct_map c)%Z then rmap s p None
               else if (d =? ct_hash c)%Z then
                 if (p + 1 <? e) && is_byte (m (p + 1)) "{" then rseq KSet 2 s
                 else if (p + 1 <? e) && is_byte (m (p + 1)) "#" then read_symbolic m e s
                 else if (p + 1 <? e) && is_byte (m (p + 1)) "_" then
                   let old := discard s in
                   match rv (with_discard (with_cur s (p + 2)) true) with
                   | Ret dv s1 =>
                     let s2 := with_discard s1 old in
                     match dv with
                     | None => if is_ok s2 then Ret None (err_at s2 EDiscard p (p + 2)) else Ret None s2
                     | Some _ => if is_ok s2 then rv s2 else Ret None s2
                     end
                   | x => x
                   end
                 else if clj c && (p + 1 <? e) && is_byte (m (p + 1)) ":" then rns s
                 else rtag s
               else if (d =? ct_sign c)%Z then
                 if (p + 1 <? e) && Scan.is_digit (m (p + 1)) then read_number_tok c m e s
                 else read_identifier m e s
               else if (d =? ct_digit c)%Z then read_number_tok c m e s
               else if (d =? ct_delim c)%Z then
                 if depth s =? 0 then Ret None (with_err s EUnmatched MStatic) else Ret None s
               else if clj c && (d =? ct_meta c)%Z then rmeta s
               else read_identifier m e s) <> OutOfFuel).
  { intros s Hs Hge Hc. cbv zeta.
    set (s' := with_start s (cur s)).
    assert (Hs' : is_ok s' = true) by (unfold s'; st; assumption).
    assert (Hc' : cur s' = cur s) by reflexivity. rewrite Hc'.
    assert (Hlt' : cur s' < e) by (rewrite Hc'; assumption).
    assert (Hr' : (4 * rem s' + 7 <= f)%nat) by (unfold rem in *; rewrite Hc'; lia).
    repeat match goal with
           | |- (if ?b then _ else _) <> _ => destruct b eqn:?
           end;
      try apply read_string_ret; try apply read_character_ret; try apply read_symbolic_ret;
      try apply read_number_ret; try apply read_identifier_ret; try discriminate;
      try (apply Ts; [assumption|assumption|lia|assumption]);
      try (apply Tn; assumption); try (apply Tt; assumption); try (apply Tmt; assumption).
    - rewrite <- Hc'. apply Tm; assumption.
    - (* discard *)
      match goal with H : (_ <? e) && _ = true |- _ => apply andb_true_iff in H; destruct H as [Hp1 _]; apply N.ltb_lt in Hp1 end.
      set (sd := with_discard (with_cur s' (cur s + 2)) true).
      assert (Hsd : is_ok sd = true) by (unfold sd; st; assumption).
      assert (Hrd : (4 * rem sd + 8 <= f)%nat) by (unfold rem, sd in *; st; lia).
      pose proof (Gr _ Hsd) as G1. pose proof (Ar _ Hsd) as A1. pose proof (Tr _ Hsd Hrd) as T1.
      destruct (rv sd) as [[dv|] s1| | |]; try discriminate; try congruence; cbn in G1, A1.
      + destruct G1 as [Hok1 _]. destruct A1 as [A1 _]. unfold sd in A1. st. rewrite Hok1.
        apply Tr; [st; assumption|]. unfold rem in *. st. lia.
      + destruct (is_ok (with_discard s1 (discard s'))); discriminate. }
  destruct (prefilter (bz (m (cur s0)))).
  - pose proof (skip_ws_ge_all (cur s0)) as Hq.
    destruct (skip_ws m (cur s0) e <? e) eqn:Hq2; [|discriminate].
    apply N.ltb_lt in Hq2. apply (Hpre (with_cur s0 (skip_ws m (cur s0) e))); st; assumption.
  - apply (Hpre s0); [assumption|lia|assumption].
Qed.

Theorem readers_terminate : forall f,
  Tv f (read_value c o handler xe xh sort m e f) /\ Tseq f (read_seq c o handler xe xh sort m e f) /\
  Tel f (read_elems c o handler xe xh sort m e f) /\ Tmap f (read_map c o handler xe xh sort m e f) /\
  Ten f (read_entries c o handler xe xh sort m e f) /\ Tin f (read_nsmap c o handler xe xh sort m e f) /\
  Tin f (read_tagged c o handler xe xh sort m e f) /\ Tin f (read_meta c o handler xe xh sort m e f).
Proof.
  induction f as [|f (IHv & IHs & IHe & IHm & IHen & IHn & IHt & IHmt)].
  - repeat split; intro; intros; lia.
  - destruct (RG f) as (Gv0 & Gs0 & Ge0 & Gm0 & Gen0 & Gn0 & Gt0 & Gmt0).
    destruct (readers_adv f) as (Av0 & As0 & Ae0 & Am0 & Aen0 & An0 & At0 & Amt0).
    repeat split.
    + apply value_body_term; assumption.
    + apply seq_body_term; assumption.
    + apply elems_body_term; assumption.
    + apply map_body_term; assumption.
    + apply entries_body_term; assumption.
    + apply nsmap_body_term; assumption.
    + apply tagged_body_term; assumption.
    + apply meta_body_term; assumption.
Qed.

(* the whole document: with the fuel the model is run with, reading returns *)
Theorem read_doc_terminates fuel : (8 + 4 * N.to_nat e <= fuel)%nat ->
  read_doc c o handler xe xh sort m e fuel <> OutOfFuel.
Proof.
  intros Hf. unfold read_doc.
  destruct (readers_terminate fuel) as (Tv0 & _).
  assert (H : read_value c o handler xe xh sort m e fuel init_pst <> OutOfFuel).
  { apply Tv0; [reflexivity|]. unfold rem. cbn [cur init_pst]. rewrite N.sub_0_r. lia. }
  destruct (read_value c o handler xe xh sort m e fuel init_pst); try congruence; try discriminate.
  destruct (if is_ok s then _ else _) as [ps pe]. destruct (is_eof s && has_eof_value o); discriminate.
Qed.
End Term.

(* ------------------------------------------------------------------ the four builds *)
Lemma class_sweep :
  forallb (fun c => forallb (fun b =>
     implb (dispatch_of c b =? ct_digit c)%Z (is_dig b) &&
     implb (dispatch_of c b =? ct_sign c)%Z (is_c b "-" || is_c b "+")) all_bytes) all_cfgs = true.
Proof. vm_compute. reflexivity. Qed.

Lemma class_facts c : In c all_cfgs ->
  (forall b, (dispatch_of c b =? ct_digit c)%Z = true -> is_dig b = true) /\
  (forall b, (dispatch_of c b =? ct_sign c)%Z = true -> is_c b "-" = true \/ is_c b "+" = true).
Proof.
  intros Hc. pose proof class_sweep as H. rewrite forallb_forall in H. specialize (H c Hc).
  split; intros b Hb; pose proof (byte_sweep _ H b) as Hs; cbv beta in Hs; apply andb_true_iff in Hs; destruct Hs as [H1 H2].
  - rewrite Hb in H1. exact H1.
  - rewrite Hb in H2. cbn [implb] in H2. now apply orb_true_iff.
Qed.

(* reading ANY input, under ANY of the four flag sets, options and handlers, with the fuel the
   model is run with (8 + 4 * length), returns: the model never runs out of fuel *)
Theorem read_doc_always_returns c o handler xe xh sort m e fuel : In c all_cfgs ->
  (8 + 4 * N.to_nat e <= fuel)%nat -> read_doc c o handler xe xh sort m e fuel <> OutOfFuel.
Proof.
  intros Hc Hf. destruct (class_facts c Hc) as [H1 H2]. now apply read_doc_terminates.
Qed.

Corollary run_doc_always_returns c o m len : In c all_cfgs -> run_doc c o m len <> OutOfFuel.
Proof. intros Hc. unfold run_doc. apply read_doc_always_returns; [assumption|]. unfold fuel_for. lia. Qed.
