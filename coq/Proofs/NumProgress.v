(* Proofs/NumProgress.v -- the number scanner always moves forward: every cursor it produces is
   at or behind the position it was entered with, and a number token that starts with a digit
   (or a sign followed by a digit) ends strictly behind its start. *)
From Coq Require Import ZArith NArith List Bool Lia String.
From Coq.Strings Require Import Byte.
From Verif Require Import Lanes Common Values Floats Scan Numbers ByteSweep.
Import ListNotations.
Local Open Scope N_scope.

Section NP.
Variable c : cfg.
Variable m : mem.
Variable e : N.

Notation adv := (adv e).
Notation peek := (peek m e).

Lemma adv_ge p : p <= adv p.
Proof. unfold Numbers.adv. destruct (p <? e); lia. Qed.
Lemma adv_gt p : p < e -> p < adv p.
Proof. intros H. unfold Numbers.adv. replace (p <? e) with true by (symmetry; now apply N.ltb_lt). lia. Qed.

Lemma digit_loop_ge f isd st : forall p q, digit_loop c m e f isd st p = inl q -> p <= q.
Proof.
  induction f as [|f IH]; intros p q H; cbn [digit_loop] in H; [injection H as <-; lia|].
  destruct (not_nul_nor_delim (peek p)); [|injection H as <-; lia].
  destruct (isd (peek p)).
  - apply IH in H. pose proof (adv_ge p). lia.
  - destruct (exp c && is_us (peek p)); [|injection H as <-; lia].
    destruct (st && negb (is_us (peek (adv p))) && negb (isd (peek (adv p)))); [discriminate|].
    apply IH in H. pose proof (adv_ge p). lia.
Qed.

Lemma frac_loop_ge f : forall p, p <= frac_loop c m e f p.
Proof.
  induction f as [|f IH]; intros p; cbn [frac_loop]; [lia|].
  destruct (is_dig (peek p) || (exp c && is_us (peek p))); [|lia].
  pose proof (IH (adv p)). pose proof (adv_ge p). lia.
Qed.

Lemma plain_digits_ge f : forall p, p <= plain_digits m e f p.
Proof.
  induction f as [|f IH]; intros p; cbn [plain_digits]; [lia|].
  destruct (is_dig (peek p)); [|lia]. pose proof (IH (adv p)). pose proof (adv_ge p). lia.
Qed.

Lemma skip_zeros_ge f : forall p, p <= skip_zeros m e f p.
Proof.
  induction f as [|f IH]; intros p; cbn [skip_zeros]; [lia|].
  destruct (is_c (peek p) "0"); [|lia]. pose proof (IH (adv p)). pose proof (adv_ge p). lia.
Qed.

Lemma finish_pos v p v' q : finish m e v p = NVal v' q -> q = p.
Proof. unfold finish. destruct (delim_ok m e p); intros H; [now injection H|discriminate]. Qed.

Lemma ratio_denominator_ge p ds de : ratio_denominator m e p = inl (ds, de) -> p <= de.
Proof.
  unfold ratio_denominator. pose proof (plain_digits_ge (fuel_of e p) p) as Hg.
  set (qq := plain_digits m e (fuel_of e p) p) in *.
  destruct ((e <=? p) || negb (is_dig (peek p))); [discriminate|].
  destruct (is_c (peek p) "0"); [discriminate|].
  destruct (is_c (peek qq) "N" || is_c (peek qq) "M" || is_c (peek qq) "/"); [discriminate|].
  destruct ((qq <? e) && negb (is_delim (peek qq))); [discriminate|].
  intros H. injection H as <- <-. exact Hg.
Qed.

Ltac fin H := apply finish_pos in H; subst.

Lemma suffix_section_ge start ds0 neg p dp ex v q :
  suffix_section c m e start ds0 neg p dp ex = NVal v q -> p <= q.
Proof.
  unfold suffix_section. intros H. pose proof (adv_ge p) as Ha.
  destruct (exp c && _ && _ && _); [discriminate|].
  destruct (is_c (peek p) "N" && negb dp && negb ex); [fin H; lia|].
  destruct (is_c (peek p) "M"); [fin H; lia|].
  destruct (clj c && is_c (peek p) "/" && negb dp && negb ex).
  - destruct (ratio_denominator m e (adv p)) as [[ds de]|ec] eqn:Hr; [|discriminate].
    apply ratio_denominator_ge in Hr.
    destruct (parse_int64 c (Numbers.sub m ds0 p) 10 neg) as [nu| |s1]; destruct (parse_int64 c (Numbers.sub m ds de) 10 false) as [dv| |s2]; try discriminate.
    + destruct (ratio_gcd nu dv) as [g|]; [|discriminate].
      destruct (if (g >? 1)%Z then _ else _) as [nu' de'].
      destruct (nu' =? 0)%Z; [injection H as _ <-; lia|].
      destruct (de' =? 1)%Z; [injection H as _ <-; lia|]. fin H. lia.
    + fin H. lia.
    + destruct (dv =? 1)%Z; fin H; lia.
    + fin H. lia.
  - destruct (dp || ex).
    + destruct (parse_double c _); [fin H; lia|discriminate].
    + destruct (int_or_big c m ds0 p 10 neg); [fin H; lia|discriminate].
Qed.

Lemma exponent_section_ge start ds0 neg p dp fg v q :
  exponent_section c m e start ds0 neg p dp fg = NVal v q -> p <= q.
Proof.
  unfold exponent_section. intros H. destruct (negb fg && _ && _ && _); [discriminate|].
  set (p3 := if is_c (peek (adv p)) "+" || is_c (peek (adv p)) "-" then adv (adv p) else adv p) in H.
  destruct (negb (is_dig (peek p3))); [discriminate|].
  apply suffix_section_ge in H. pose proof (frac_loop_ge (fuel_of e p3) p3). pose proof (adv_ge p). pose proof (adv_ge (adv p)).
  assert (p <= p3) by (unfold p3; destruct (is_c (peek (adv p)) "+" || is_c (peek (adv p)) "-"); lia). lia.
Qed.

Lemma after_frac_ge start ds0 neg p dp v q : after_frac c m e start ds0 neg p dp = NVal v q -> p <= q.
Proof.
  unfold after_frac. destruct (_ || _); intros H; [now apply exponent_section_ge in H|now apply suffix_section_ge in H].
Qed.

Lemma after_int_digits_ge start ds0 neg p dp v q : after_int_digits c m e start ds0 neg p dp = NVal v q -> p <= q.
Proof.
  unfold after_int_digits. destruct (is_c (peek p) ".").
  - destruct (exp c && _); [discriminate|]. intros H. apply after_frac_ge in H.
    pose proof (frac_loop_ge (fuel_of e (adv p)) (adv p)). pose proof (adv_ge p). lia.
  - apply after_frac_ge.
Qed.

Lemma zero_tail_ge start ds0 neg p v q : zero_tail c m e start ds0 neg p = NVal v q -> p <= q.
Proof.
  unfold zero_tail. intros H. pose proof (adv_ge p).
  destruct (is_c (peek p) "."); [now apply after_int_digits_ge in H|].
  destruct (is_c (peek p) "N"); [fin H; lia|].
  destruct (is_c (peek p) "M"); [fin H; lia|].
  destruct (_ || _); [now apply exponent_section_ge in H|].
  destruct (clj c && _).
  - destruct (ratio_denominator m e (adv p)) as [[ds de]|ec] eqn:Hr; [|discriminate].
    apply ratio_denominator_ge in Hr. injection H as _ <-. lia.
  - fin H. lia.
Qed.

Lemma radix_tail_ge start ds p radix neg ns v q : radix_tail c m e start ds p radix neg ns = NVal v q -> p <= q.
Proof.
  unfold radix_tail. intros H. pose proof (adv_ge p).
  destruct (ns && is_c (peek p) "N").
  - destruct (is_c _ "/"); [discriminate|]. fin H. lia.
  - destruct (is_c (peek p) "M").
    + destruct (is_c _ "/"); [discriminate|]. fin H. lia.
    + destruct (is_c _ "/"); [discriminate|]. destruct (int_or_big c m ds p radix neg); [fin H; lia|discriminate].
Qed.

(* no digit is a delimiter or NUL: the digit loop consumes a leading digit *)
Lemma digit_not_delim b : is_dig b = true -> not_nul_nor_delim b = true.
Proof.
  intros H. assert (Hs : forallb (fun b => implb (is_dig b) (not_nul_nor_delim b)) all_bytes = true) by (vm_compute; reflexivity).
  pose proof (byte_sweep _ Hs b) as Hb. cbv beta in Hb. rewrite H in Hb. exact Hb.
Qed.

Lemma digit_loop_first f st p q : p < e -> is_dig (m p) = true ->
  digit_loop c m e (S f) is_dig st p = inl q -> p < q.
Proof.
  intros Hp Hd H. cbn [digit_loop] in H.
  assert (Hpk : peek p = m p) by (unfold Numbers.peek; now replace (p <? e) with true by (symmetry; now apply N.ltb_lt)).
  rewrite Hpk, (digit_not_delim _ Hd), Hd in H. apply digit_loop_ge in H. pose proof (adv_gt p Hp). lia.
Qed.

(* the token: entered at a digit, or at a sign followed by a digit *)
Definition number_start (p : N) : Prop :=
  p < e /\ (is_dig (m p) = true \/ ((is_c (m p) "-" = true \/ is_c (m p) "+" = true) /\ p + 1 < e /\ is_dig (m (p + 1)) = true)).

Theorem read_number_progress start v q : number_start start -> read_number c m e start = NVal v q -> start < q.
Proof.
  intros [Hs Hfirst] H. unfold read_number in H.
  assert (Hpk : peek start = m start) by (unfold Numbers.peek; now replace (start <? e) with true by (symmetry; now apply N.ltb_lt)).
  rewrite Hpk in H.
  (* p1 = first digit position, p1 < e, digit there, start <= p1 *)
  set (sp := if is_c (m start) "-" then (true, adv start) else if is_c (m start) "+" then (false, adv start) else (false, start)) in H.
  assert (Hp1 : start <= snd sp /\ snd sp < e /\ is_dig (m (snd sp)) = true).
  { unfold sp. pose proof (adv_gt start Hs) as Ha.
    assert (Hadv : adv start = start + 1) by (unfold Numbers.adv; now replace (start <? e) with true by (symmetry; now apply N.ltb_lt)).
    destruct Hfirst as [Hd|[Hsg [Hlt Hd]]].
    - assert (is_c (m start) "-" = false /\ is_c (m start) "+" = false) as [-> ->].
      { revert Hd. generalize (m start). intros b. unfold is_c, is_byte, is_dig. destruct b; cbn; intros; try discriminate; split; reflexivity. }
      cbn [snd]. split; [lia|split; assumption].
    - destruct (is_c (m start) "-"); cbn [snd]; [rewrite Hadv; split; [lia|split; assumption]|].
      destruct Hsg as [Hx|Hx]; [discriminate|]. rewrite Hx. cbn [snd]. rewrite Hadv. split; [lia|split; assumption]. }
  destruct sp as [neg p1]. cbn [snd] in Hp1. destruct Hp1 as [Hge [Hp1e Hdig]].
  assert (Hpk1 : peek p1 = m p1) by (unfold Numbers.peek; now replace (p1 <? e) with true by (symmetry; now apply N.ltb_lt)).
  rewrite Hpk1 in H. cbv zeta in H.
  destruct (clj c && is_dig (m p1)) eqn:Hcd.
  - (* possibly a radix prefix *)
    destruct ((plain_digits m e (fuel_of e p1) p1 <? e) && _ && (p1 <? plain_digits m e (fuel_of e p1) p1)) eqn:Hr.
    + apply andb_true_iff in Hr. destruct Hr as [_ Hlt]. apply N.ltb_lt in Hlt.
      destruct ((2 <=? _) && (_ <=? 36))%Z; [|discriminate].
      destruct (negb (in_radix _ _)); [discriminate|].
      destruct (digit_loop c m e _ _ true _) as [p|ec] eqn:Hdl; [|discriminate].
      apply digit_loop_ge in Hdl. apply radix_tail_ge in H. lia.
    + clear Hr. revert H. 
      destruct (is_c (m p1) "0") eqn:Hz.
      * pose proof (adv_gt p1 Hp1e) as Ha.
        destruct (clj c).
        -- pose proof (skip_zeros_ge (fuel_of e (adv p1)) (adv p1)) as Hsz.
           destruct (_ || _).
           ++ destruct (negb _); [discriminate|]. destruct (digit_loop c m e _ _ false _) as [p|ec] eqn:Hdl; [|discriminate].
              intros H. apply digit_loop_ge in Hdl. apply radix_tail_ge in H. pose proof (adv_ge (skip_zeros m e (fuel_of e (adv p1)) (adv p1))). lia.
           ++ destruct ((49 <=? _)%Z && _).
              ** destruct (digit_loop c m e _ _ false _) as [p|ec] eqn:Hdl; [|discriminate].
                 intros H. apply digit_loop_ge in Hdl. apply radix_tail_ge in H. lia.
              ** destruct (_ || _); [discriminate|]. intros H. apply zero_tail_ge in H. lia.
        -- destruct (is_dig (peek (adv p1))); [discriminate|]. intros H. apply zero_tail_ge in H. lia.
      * destruct (digit_loop c m e (fuel_of e p1) is_dig true p1) as [p|ec] eqn:Hdl; [|discriminate].
        intros H. apply after_int_digits_ge in H. unfold fuel_of in Hdl. apply (digit_loop_first _ _ _ _ Hp1e Hdig) in Hdl. lia.
  - revert H. destruct (is_c (m p1) "0") eqn:Hz.
    + pose proof (adv_gt p1 Hp1e) as Ha. destruct (clj c); [discriminate Hcd || (rewrite Hdig in Hcd; discriminate)|].
      destruct (is_dig (peek (adv p1))); [discriminate|]. intros H. apply zero_tail_ge in H. lia.
    + destruct (digit_loop c m e (fuel_of e p1) is_dig true p1) as [p|ec] eqn:Hdl; [|discriminate].
      intros H. apply after_int_digits_ge in H. unfold fuel_of in Hdl. apply (digit_loop_first _ _ _ _ Hp1e Hdig) in Hdl. lia.
Qed.
End NP.
