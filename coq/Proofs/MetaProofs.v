(* Proofs/MetaProofs.v -- namespaced-map key rewriting and metadata attachment (collection.c,
   metadata.c models in Model/Reader.v).  meta_body is parametric in the value reader, so the
   statements hold for the real reader at any fuel. *)
From Coq Require Import ZArith NArith List Bool Lia String.
From Coq.Strings Require Import Byte.
From Verif Require Import Lanes Common Values Scan Numbers Equality Tokens Reader EqBasics.
Import ListNotations.
Local Open Scope list_scope.
Local Open Scope N_scope.

(* ---- key rewriting *)
Lemma qualify_unqualified_kw ns nm a b mm h :
  nval (qualify_key ns (Node (VKeyword None nm) a b mm h)) = VKeyword (Some ns) nm.
Proof. reflexivity. Qed.
Lemma qualify_unqualified_sym ns nm a b mm h :
  nval (qualify_key ns (Node (VSymbol None nm) a b mm h)) = VSymbol (Some ns) nm.
Proof. reflexivity. Qed.
Lemma qualify_underscore_kw ns nm a b mm h :
  nval (qualify_key ns (Node (VKeyword (Some (lit "_")) nm) a b mm h)) = VKeyword None nm.
Proof. reflexivity. Qed.
Lemma qualify_underscore_sym ns nm a b mm h :
  nval (qualify_key ns (Node (VSymbol (Some (lit "_")) nm) a b mm h)) = VSymbol None nm.
Proof. reflexivity. Qed.
Lemma qualify_qualified_kw ns q nm a b mm h : bytes_eqb q (lit "_") = false ->
  qualify_key ns (Node (VKeyword (Some q) nm) a b mm h) = Node (VKeyword (Some q) nm) a b mm h.
Proof. intros H. unfold qualify_key. cbn [nval]. now rewrite H. Qed.
Lemma qualify_qualified_sym ns q nm a b mm h : bytes_eqb q (lit "_") = false ->
  qualify_key ns (Node (VSymbol (Some q) nm) a b mm h) = Node (VSymbol (Some q) nm) a b mm h.
Proof. intros H. unfold qualify_key. cbn [nval]. now rewrite H. Qed.
Lemma qualify_other ns k :
  match nval k with VKeyword _ _ | VSymbol _ _ => False | _ => True end -> qualify_key ns k = k.
Proof. unfold qualify_key. destruct (nval k); intros H; try reflexivity; destruct H. Qed.

(* ---- annotation expansion *)
Lemma meta_entries_keyword a ns nm : nval a = VKeyword ns nm -> meta_entries a = ([a], [mk (VBool true) 0 0]).
Proof. intros H. unfold meta_entries. now rewrite H. Qed.
Lemma meta_entries_map a ks vs : nval a = VMap ks vs -> meta_entries a = (ks, vs).
Proof. intros H. unfold meta_entries. now rewrite H. Qed.
Lemma meta_entries_vector a xs : nval a = VVector xs -> meta_entries a = ([mk (VKeyword None (lit "param-tags")) 0 0], [a]).
Proof. intros H. unfold meta_entries. now rewrite H. Qed.
Lemma meta_entries_tag a : (exists r e p, nval a = VString r e p) \/ (exists ns nm, nval a = VSymbol ns nm) ->
  meta_entries a = ([mk (VKeyword None (lit "tag")) 0 0], [a]).
Proof. intros [[r [e [p H]]]|[ns [nm H]]]; unfold meta_entries; now rewrite H. Qed.

Section Meta.
Variable c : cfg.
Variable o : opts.
Variable handler : Z -> node -> option node * option bytes.
Variable xe : Z -> option (Z -> Z -> bool).
Variable xh : Z -> option (Z -> Z).
Variable sort : list node -> list node.
Variable m : mem.
Variable e : N.

Notation veq := (v_equal c xe).
Notation merge := (meta_merge c xe).

(* ---- merge: the new (outer) entries come first, unchanged and in order; an old (inner) entry
   survives exactly when its key equals no new key; survivors keep their order *)
Theorem meta_merge_spec nk nv ok ov : List.length nk = List.length nv ->
  let '(mk_, mv_) := merge nk nv ok ov in
  let keep := filter (fun kv => negb (existsb (fun k => veq (fst kv) k) nk)) (combine ok ov) in
  mk_ = nk ++ map fst keep /\ mv_ = nv ++ map snd keep /\ List.length mk_ = List.length mv_ /\
  (forall kv, In kv keep <-> In kv (combine ok ov) /\ forall k, In k nk -> veq (fst kv) k = false).
Proof.
  intros Hl. unfold meta_merge. cbn zeta. split; [reflexivity|]. split; [reflexivity|]. split.
  - rewrite !app_length, !map_length. lia.
  - intros kv. rewrite filter_In. split; intros [H1 H2]; split; try assumption.
    + intros k Hk. apply negb_true_iff in H2. destruct (veq (fst kv) k) eqn:Hv; [|reflexivity].
      assert (existsb (fun k => veq (fst kv) k) nk = true) by (apply existsb_exists; eauto). congruence.
    + apply negb_true_iff. destruct (existsb (fun k => veq (fst kv) k) nk) eqn:Hx; [|reflexivity].
      apply existsb_exists in Hx. destruct Hx as [k [Hk Hv]]. rewrite (H2 k Hk) in Hv. discriminate.
Qed.

(* no surviving old key equals a new key: merged keys stay unique when both sides were *)
Definition uniq_wrt (ks : list node) : Prop :=
  forall i j, (i < j < List.length ks)%nat -> veq (nth j ks (mk VNil 0 0)) (nth i ks (mk VNil 0 0)) = false.

(* ---- the marker protocol *)
Notation mbody := (meta_body c xe).

(* a value comes back only if both operands were read, the annotation and target kinds are
   the permitted ones, and then it is the target itself -- same value, same end -- carrying
   one metadata map *)
Theorem meta_body_value rv s v s' : mbody rv s = Ret (Some v) s' ->
  exists a s1 form,
    rv (with_ext (with_cur s (cur s + 1)) "metadata") = Ret (Some a) s1 /\ rv s1 = Ret (Some form) s' /\
    meta_ok_annotation (nval a) = true /\ meta_ok_target (nval form) = true /\
    nval v = nval form /\ nre v = nre form /\ nhash v = nhash form /\
    exists mm, v = set_rs (set_meta form (Some mm)) (cur s) /\
      match nmeta form with
      | None => mm = mk (VMap (fst (meta_entries a)) (snd (meta_entries a))) 0 0
      | Some (Node (VMap ok ov) a1 b1 c1 d1) =>
        mm = Node (VMap (fst (merge (fst (meta_entries a)) (snd (meta_entries a)) ok ov))
                        (snd (merge (fst (meta_entries a)) (snd (meta_entries a)) ok ov))) a1 b1 c1 d1
      | Some old => mm = old
      end.
Proof.
  unfold meta_body. intros H.
  destruct (rv (with_ext (with_cur s (cur s + 1)) "metadata")) as [[a|] s1| | |] eqn:Ha; try discriminate.
  2:{ destruct (is_ok s1); discriminate. }
  destruct (meta_ok_annotation (nval a)) eqn:Hoa; cbn [negb] in H; [|discriminate].
  destruct (rv s1) as [[form|] s2| | |] eqn:Hf; try discriminate.
  2:{ destruct (is_ok s2); discriminate. }
  destruct (meta_ok_target (nval form)) eqn:Hot; cbn [negb] in H; [|discriminate].
  destruct (meta_entries a) as [nk nv] eqn:He.
  injection H as <- <-. exists a, s1, form. repeat split; try assumption.
  - destruct form; reflexivity.
  - destruct form; reflexivity.
  - destruct form; reflexivity.
  - eexists. split; [reflexivity|]. rewrite ?He. cbn [fst snd].
    destruct (nmeta form) as [[[] a1 b1 c1 d1]|]; reflexivity.
Qed.

(* the target's own value, equality and hash are unchanged by the attachment *)
Theorem meta_transparent form mm st x :
  nval (set_rs (set_meta form (Some mm)) st) = nval form /\
  equal c xe (set_rs (set_meta form (Some mm)) st) x = equal c xe form x /\
  equal c xe x (set_rs (set_meta form (Some mm)) st) = equal c xe x form /\
  hash_value c xh (set_rs (set_meta form (Some mm)) st) = hash_value c xh form.
Proof.
  destruct form as [v a b mt h]. cbn [set_meta set_rs nval].
  split; [reflexivity|]. split; [|split].
  - unfold equal. apply equal_fuel_ignores.
  - unfold equal. apply equal_fuel_ignores_r.
  - unfold hash_value, hash_internal. cbn [nhash]. now rewrite (hash_fuel_ignores c xh _ v st b (Some mm) h a b mt h).
Qed.

(* a marker whose annotation or target is missing (the reader comes back with no value and no
   error: closing delimiter or end of input) is an error, never a silent success *)
Theorem meta_body_missing_annotation rv s s1 :
  rv (with_ext (with_cur s (cur s + 1)) "metadata") = Ret None s1 ->
  exists s', mbody rv s = Ret None s' /\ is_ok s' = false.
Proof.
  intros H. unfold meta_body. rewrite H. destruct (is_ok s1) eqn:Hk.
  - eexists. split; [reflexivity|]. reflexivity.
  - eexists. split; [reflexivity|]. assumption.
Qed.

Theorem meta_body_missing_target rv s a s1 s2 :
  rv (with_ext (with_cur s (cur s + 1)) "metadata") = Ret (Some a) s1 -> rv s1 = Ret None s2 ->
  exists s', mbody rv s = Ret None s' /\ is_ok s' = false.
Proof.
  intros Ha Hf. unfold meta_body. rewrite Ha. destruct (meta_ok_annotation (nval a)); cbn [negb].
  - rewrite Hf. destruct (is_ok s2) eqn:Hk; eexists; (split; [reflexivity|]); [reflexivity|assumption].
  - eexists. split; reflexivity.
Qed.

(* kinds other than collections, symbols and tagged values are refused as targets; kinds other
   than map, keyword, string, symbol, vector are refused as annotations *)
Theorem meta_body_gate rv s a s1 form s2 :
  rv (with_ext (with_cur s (cur s + 1)) "metadata") = Ret (Some a) s1 -> rv s1 = Ret (Some form) s2 ->
  meta_ok_annotation (nval a) = false \/ meta_ok_target (nval form) = false ->
  exists s', mbody rv s = Ret None s' /\ is_ok s' = false.
Proof.
  intros Ha Hf Hg. unfold meta_body. rewrite Ha. destruct (meta_ok_annotation (nval a)) eqn:Hoa; cbn [negb].
  - rewrite Hf. destruct Hg as [Hg|Hg]; [discriminate|]. rewrite Hg. cbn [negb]. eexists. split; reflexivity.
  - eexists. split; reflexivity.
Qed.
End Meta.

(* ---- namespaced-map prefix: must be an unqualified keyword directly followed (after optional
   spacing) by an opening brace; then the map reader runs with that namespace *)
Section NsMap.
Variable c : cfg.
Variable xe : Z -> option (Z -> Z -> bool).
Variable m : mem.
Variable e : N.

Theorem nsmap_prefix_gate rv rmap s kw s1 :
  rv (with_cur s (cur s + 1)) = Ret (Some kw) s1 ->
  (forall nm, nval kw <> VKeyword None nm) ->
  exists s', nsmap_body m e rv rmap s = Ret None s' /\ is_ok s' = false.
Proof.
  intros H Hk. unfold nsmap_body. rewrite H.
  destruct (nval kw) as [| | | | | | | | | | |ns nm| | | | | |] eqn:Hv; try (eexists; split; reflexivity).
  destruct ns; [eexists; split; reflexivity|]. exfalso. now apply (Hk nm).
Qed.

Theorem nsmap_runs_map_reader rv rmap s kw s1 nm :
  rv (with_cur s (cur s + 1)) = Ret (Some kw) s1 -> nval kw = VKeyword None nm ->
  let q := skip_ws m (cur s1) e in
  (q <? e) = true -> is_byte (m q) "{" = true ->
  nsmap_body m e rv rmap s = rmap (with_ext (with_cur s1 q) "nsmap") (cur s) (Some nm).
Proof.
  intros H Hv q Hq Hb. unfold nsmap_body. rewrite H, Hv. fold q.
  replace (e <=? q) with false by (symmetry; apply N.leb_gt; now apply N.ltb_lt). rewrite Hb. reflexivity.
Qed.
End NsMap.
