(* Proofs/BuilderProofs.v -- under ANY allocation-failure schedule the collection builder
   either reports failure or hands back exactly the added elements in order, in an array that
   does not live in the reader's stack frame (unless the collection is empty, in which case the
   array is never dereferenced). *)
From Coq Require Import ZArith List Bool Lia.
From Verif Require Import Builder.
Import ListNotations.

Lemma b_run_elems {A} (oks : list bool) (b : builder A) (vs : list A) els p :
  b_run oks b vs = Some (els, p) -> els = b_elems b ++ vs.
Proof.
  revert oks b. induction vs as [|v r IH]; intros oks b.
  - cbn [b_run]. destruct oks as [|ok oks]; unfold b_finish; destruct (b_prov b), (b_elems b);
      try destruct ok; intros H; inversion H; now rewrite app_nil_r.
  - cbn [b_run]. destruct oks as [|ok oks];
      (destruct (b_add _ b v) as [b'|] eqn:E; [|discriminate]);
      intros H; apply IH in H; subst els; unfold b_add in E;
      destruct (Nat.ltb _ _); try destruct ok; inversion E; subst; cbn; now rewrite <- app_assoc.
Qed.

Lemma b_run_prov {A} (oks : list bool) (b : builder A) (vs : list A) els p :
  b_run oks b vs = Some (els, p) -> p = PArena \/ els = [].
Proof.
  revert oks b. induction vs as [|v r IH]; intros oks b.
  - cbn [b_run]. destruct oks as [|ok oks]; unfold b_finish; destruct (b_prov b) eqn:P, (b_elems b) eqn:E;
      try destruct ok; intros H; inversion H; subst; auto.
  - cbn [b_run]. destruct oks as [|ok oks];
      (destruct (b_add _ b v) as [b'|]; [|discriminate]); apply IH.
Qed.

Theorem builder_clean {A} (oks : list bool) (vs : list A) :
  match b_run oks b_init vs with
  | None => True                                    (* reported as out of memory *)
  | Some (els, p) => els = vs /\ (p = PArena \/ els = [])
  end.
Proof.
  destruct (b_run oks b_init vs) as [[els p]|] eqn:E; [|exact I]. split.
  - apply b_run_elems in E. exact E.
  - eapply b_run_prov; eassumption.
Qed.
