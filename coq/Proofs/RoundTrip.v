(* Proofs/RoundTrip.v -- structural fidelity of the READER on a fragment of EDN, for documents of unbounded size
   and nesting (C03): terms built from integer literals of any length, unqualified keywords, vectors and lists,
   written with single spaces between elements, are read -- under every flag set -- to a tree that denotes
   exactly that term: same kinds, same order and count of elements, integer values equal to the mathematical
   value of the digits (big integer with the digits when they do not fit), keyword name bytes exact; the cursor
   ends right behind the term.  The proof composes the token theorems (NumLiteral, FidelityProofs) through the
   dispatcher and the collection readers, by induction on the term. *)
From Coq Require Import ZArith NArith List Bool Lia String.
From Coq.Strings Require Import Byte.
From Verif Require Import Lanes Common Values Floats Scan ScanFacts Numbers Equality Tokens Reader Configs ByteSweep ScanProofs
     FidelityProofs NumProgress NumLiteral FlagProofs FuelMono TriviaProofs TriviaReader.
Import ListNotations.
Local Open Scope N_scope.

(* ---- the fragment ---- *)
Inductive term :=
| TKw (name : bytes)
| TInt (neg : bool) (digits : bytes)
| TVec (l : list term)
| TList (l : list term).

Fixpoint tsize (t : term) : nat :=
  match t with
  | TVec l | TList l => S (fold_right (fun x a => tsize x + a)%nat O l)
  | _ => 1%nat
  end.

Fixpoint wft (t : term) : Prop :=
  match t with
  | TKw nm => nm <> [] /\ forallb identb nm = true
  | TInt _ ds => ds <> [] /\ forallb is_dig ds = true /\ (hd "0"%byte ds <> "0"%byte \/ ds = ["0"%byte])
  | TVec l | TList l => fold_right (fun x a => wft x /\ a) True l
  end.

(* the rendering: elements separated by one space *)
Fixpoint pr (t : term) : bytes :=
  match t with
  | TKw nm => ":"%byte :: nm
  | TInt neg ds => (if neg then ["-"%byte] else []) ++ ds
  | TVec l => "["%byte :: (fix sep (l : list term) : bytes :=
                 match l with [] => [] | [x] => pr x | x :: t => pr x ++ " "%byte :: sep t end) l ++ ["]"%byte]
  | TList l => "("%byte :: (fix sep (l : list term) : bytes :=
                 match l with [] => [] | [x] => pr x | x :: t => pr x ++ " "%byte :: sep t end) l ++ [")"%byte]
  end.
Fixpoint sep (l : list term) : bytes :=
  match l with [] => [] | [x] => pr x | x :: t => pr x ++ " "%byte :: sep t end.
Lemma pr_vec l : pr (TVec l) = "["%byte :: sep l ++ ["]"%byte].
Proof. reflexivity. Qed.
Lemma pr_list l : pr (TList l) = "("%byte :: sep l ++ [")"%byte].
Proof. reflexivity. Qed.

(* what a tree must look like to denote a term *)
Section Den.
Variable c : cfg.
Inductive denotes : term -> node -> Prop :=
| DKw nm n : nval n = VKeyword None nm -> nhash n = 0%Z -> denotes (TKw nm) n
| DInt neg ds n : nval n = int_literal_value c neg ds -> nhash n = 0%Z -> denotes (TInt neg ds) n
| DVec l xs n : nval n = VVector xs -> nhash n = 0%Z -> Forall2 denotes l xs -> denotes (TVec l) n
| DList l xs n : nval n = VList xs -> nhash n = 0%Z -> Forall2 denotes l xs -> denotes (TList l) n.
End Den.

(* ---- what the generated dispatch tables say about the bytes the fragment uses, in all four builds ---- *)
Definition not_earlier (c : cfg) (d : Z) (upto : nat) : bool :=
  forallb (fun k => negb (d =? k)%Z)
          (firstn upto [ct_string c; ct_char c; ct_list c; ct_vector c; ct_map c; ct_hash c; ct_sign c; ct_digit c; ct_delim c]).

Lemma class_table :
  forallb (fun c =>
    (* ':' falls through to the identifier reader *)
    not_earlier c (dispatch_of c ":") 9 && negb (clj c && (dispatch_of c ":" =? ct_meta c)%Z) &&
    (* digits *)
    forallb (fun b => implb (is_dig b) ((dispatch_of c b =? ct_digit c)%Z && not_earlier c (dispatch_of c b) 7)) all_bytes &&
    (* '-' *)
    (dispatch_of c "-" =? ct_sign c)%Z && not_earlier c (dispatch_of c "-") 6 &&
    (* openers and closers *)
    (dispatch_of c "[" =? ct_vector c)%Z && not_earlier c (dispatch_of c "[") 3 &&
    (dispatch_of c "(" =? ct_list c)%Z && not_earlier c (dispatch_of c "(") 2 &&
    (dispatch_of c "]" =? ct_delim c)%Z && not_earlier c (dispatch_of c "]") 8 &&
    (dispatch_of c ")" =? ct_delim c)%Z && not_earlier c (dispatch_of c ")") 8) all_cfgs = true.
Proof. vm_compute. reflexivity. Qed.

Lemma byte_facts :
  prefilter (bz " ") = true /\ is_ws " " = true /\
  forallb (fun b => implb (is_dig b || Byte.eqb b ":" || Byte.eqb b "-" || Byte.eqb b "[" || Byte.eqb b "(" || Byte.eqb b "]" || Byte.eqb b ")")
                          (negb (prefilter (bz b)) && negb (is_ws b) && negb (is_semi b))) all_bytes = true /\
  numdelim (bz " ") = true /\ numdelim (bz "]") = true /\ numdelim (bz ")") = true /\
  is_delim " " = true /\ is_delim "]" = true /\ is_delim ")" = true.
Proof. vm_compute. repeat split; reflexivity. Qed.

Lemma not_earlier_spec c d n : (n <= 9)%nat -> not_earlier c d n = true ->
  forall k, (k < n)%nat -> (d =? nth k [ct_string c; ct_char c; ct_list c; ct_vector c; ct_map c; ct_hash c; ct_sign c; ct_digit c; ct_delim c] 0%Z)%Z = false.
Proof.
  unfold not_earlier. intros Hn9 H k Hk.
  assert (Hall : forall x, In x (firstn n [ct_string c; ct_char c; ct_list c; ct_vector c; ct_map c; ct_hash c; ct_sign c; ct_digit c; ct_delim c]) -> (d =? x)%Z = false).
  { rewrite forallb_forall in H. intros x Hx. apply negb_true_iff. now apply H. }
  destruct (Nat.lt_ge_cases k 9) as [Hk9|Hk9].
  - apply Hall. rewrite <- (firstn_skipn n [ct_string c; ct_char c; ct_list c; ct_vector c; ct_map c; ct_hash c; ct_sign c; ct_digit c; ct_delim c]) at 1.
    rewrite app_nth1 by (rewrite firstn_length; cbn [List.length]; lia). apply nth_In. rewrite firstn_length. cbn [List.length]. lia.
  - lia.
Qed.

Ltac usecls Hn k := let H := fresh in pose proof (Hn k ltac:(lia)) as H; cbn [nth] in H; rewrite H; clear H.

Section RT.
Variable c : cfg.
Hypothesis Hc : In c all_cfgs.
Variable o : opts.
Variable handler : Z -> node -> option node * option bytes.
Variable xe : Z -> option (Z -> Z -> bool).
Variable xh : Z -> option (Z -> Z).
Variable sort : list node -> list node.
Variable m : mem.
Variable e : N.

Notation RV := (read_value c o handler xe xh sort m e).
Notation RS := (read_seq c o handler xe xh sort m e).
Notation RE := (read_elems c o handler xe xh sort m e).

Lemma RV_S f s : RV (S f) s =
  value_body c m e (fun s => RV f s) (fun k n s => RS f k n s)
             (fun s p ns => read_map c o handler xe xh sort m e f s p ns) (fun s => read_nsmap c o handler xe xh sort m e f s)
             (fun s => read_tagged c o handler xe xh sort m e f s) (fun s => read_meta c o handler xe xh sort m e f s) s.
Proof. reflexivity. Qed.
Lemma RS_S f k n s : RS (S f) k n s = seq_body c xe xh sort m e (fun s1 acc => RE f s1 acc) k n s.
Proof. reflexivity. Qed.
Lemma RE_S f s acc : RE (S f) s acc = elems_body (fun s1 => RV f s1) (fun s1 a => RE f s1 a) s acc.
Proof. reflexivity. Qed.

Lemma classes :
  (not_earlier c (dispatch_of c ":") 9 = true /\ (clj c && (dispatch_of c ":" =? ct_meta c)%Z) = false) /\
  (forall b, is_dig b = true -> (dispatch_of c b =? ct_digit c)%Z = true /\ not_earlier c (dispatch_of c b) 7 = true) /\
  ((dispatch_of c "-" =? ct_sign c)%Z = true /\ not_earlier c (dispatch_of c "-") 6 = true) /\
  ((dispatch_of c "[" =? ct_vector c)%Z = true /\ not_earlier c (dispatch_of c "[") 3 = true) /\
  ((dispatch_of c "(" =? ct_list c)%Z = true /\ not_earlier c (dispatch_of c "(") 2 = true) /\
  ((dispatch_of c "]" =? ct_delim c)%Z = true /\ not_earlier c (dispatch_of c "]") 8 = true) /\
  ((dispatch_of c ")" =? ct_delim c)%Z = true /\ not_earlier c (dispatch_of c ")") 8 = true).
Proof.
  pose proof class_table as H. rewrite forallb_forall in H. specialize (H c Hc).
  apply andb_prop in H as [H P2]. apply andb_prop in H as [H P1]. apply andb_prop in H as [H C2]. apply andb_prop in H as [H C1].
  apply andb_prop in H as [H L2]. apply andb_prop in H as [H L1]. apply andb_prop in H as [H V2]. apply andb_prop in H as [H V1].
  apply andb_prop in H as [H M2]. apply andb_prop in H as [H M1]. apply andb_prop in H as [H D]. apply andb_prop in H as [A1 A2].
  apply negb_true_iff in A2.
  split; [split; assumption|]. split.
  { intros b Hb. pose proof (byte_sweep _ D b) as Hs. cbv beta in Hs. rewrite Hb in Hs. cbn [implb] in Hs.
    apply andb_prop in Hs as [? ?]. split; assumption. }
  repeat split; assumption.
Qed.

(* the byte right behind a term: end of input, or a number delimiter (blank, closer, ...) *)
Notation follow := (ends_at m e).

(* outcome: a tree denoting t, cursor at q, error-free, same depth *)
Definition reads (s : pst) (t : term) (q : N) (r : res (option node)) : Prop :=
  exists n s', r = Ret (Some n) s' /\ denotes c t n /\ cur s' = q /\ is_ok s' = true /\ depth s' = depth s.

Lemma stands_of_follow p l : p + N.of_nat (List.length l) <= e -> slice m p (List.length l) = l ->
  follow (p + N.of_nat (List.length l)) -> stands m e p l.
Proof.
  intros H1 H2 [H3|[H3 H4]]; (split; [exact H1|split; [exact H2|]]); [now left|right].
  destruct (numdelim_not_numchar _ H4) as [_ Hd]. exact Hd.
Qed.

Lemma first_byte p l b r : l = b :: r -> slice m p (List.length l) = l -> m p = b.
Proof. intros -> H. cbn [List.length] in H. rewrite slice_S in H. now injection H. Qed.

(* ---- tokens through the dispatcher ---- *)
Lemma rv_keyword_full f s nm : is_ok s = true -> nm <> [] -> forallb identb nm = true ->
  let l := ":"%byte :: nm in
  cur s + N.of_nat (List.length l) <= e -> slice m (cur s) (List.length l) = l -> follow (cur s + N.of_nat (List.length l)) ->
  RV (S f) s = Ret (Some (mk (VKeyword None nm) (cur s) (cur s + 1 + N.of_nat (List.length nm))))
                   (leave (with_cur (with_start (enter s) (cur s)) (cur s + 1 + N.of_nat (List.length nm)))).
Proof.
  intros Hok Hne Hid l Hle Hsl Hf. unfold l in *. clear l.
  assert (Hb : m (cur s) = ":"%byte) by (apply (first_byte _ (":"%byte :: nm) _ nm eq_refl Hsl)).
  assert (Hlt : cur s < e) by (cbn [List.length] in Hle; lia).
  destruct classes as ((Hcol & Hmeta) & _).
  pose proof (not_earlier_spec c _ 9 ltac:(lia) Hcol) as Hn.
  rewrite RV_S. unfold value_body. cbv zeta. change (cur (enter s)) with (cur s).
  replace (cur s <? e) with true by (symmetry; now apply N.ltb_lt). rewrite Hb.
  replace (prefilter (bz ":")) with false by reflexivity.
  cbn [cur with_start enter]. rewrite Hb.
  usecls Hn 0%nat; usecls Hn 1%nat; usecls Hn 2%nat; usecls Hn 3%nat; usecls Hn 4%nat; usecls Hn 5%nat; usecls Hn 6%nat; usecls Hn 7%nat; usecls Hn 8%nat.
  rewrite Hmeta.
  rewrite (read_keyword_plain m e (with_start (enter s) (cur s)) nm Hne Hid) by (apply stands_of_follow; assumption).
  reflexivity.
Qed.
Lemma rv_keyword_node f s nm : is_ok s = true -> nm <> [] -> forallb identb nm = true ->
  let l := ":"%byte :: nm in
  cur s + N.of_nat (List.length l) <= e -> slice m (cur s) (List.length l) = l -> follow (cur s + N.of_nat (List.length l)) ->
  exists s', RV (S f) s = Ret (Some (mk (VKeyword None nm) (cur s) (cur s + 1 + N.of_nat (List.length nm)))) s' /\
             cur s' = cur s + N.of_nat (List.length l) /\ is_ok s' = true /\ depth s' = depth s.
Proof.
  intros Hok Hne Hid l Hle Hsl Hf. rewrite (rv_keyword_full f s nm Hok Hne Hid Hle Hsl Hf).
  eexists. split; [reflexivity|]. cbn. repeat split; try assumption. unfold l. cbn [List.length]. lia.
Qed.
Lemma rv_keyword f s nm : is_ok s = true -> nm <> [] -> forallb identb nm = true ->
  let l := ":"%byte :: nm in
  cur s + N.of_nat (List.length l) <= e -> slice m (cur s) (List.length l) = l -> follow (cur s + N.of_nat (List.length l)) ->
  reads s (TKw nm) (cur s + N.of_nat (List.length l)) (RV (S f) s).
Proof.
  intros Hok Hne Hid l Hle Hsl Hf. destruct (rv_keyword_node f s nm Hok Hne Hid Hle Hsl Hf) as (s' & Hr & H1 & H2 & H3).
  rewrite Hr. eexists. exists s'. split; [reflexivity|]. split; [constructor; reflexivity|]. repeat split; assumption.
Qed.

Lemma rv_int_full f s (neg : bool) (ds : list byte) : is_ok s = true -> ds <> [] -> forallb is_dig ds = true ->
  (List.hd "0"%byte ds <> "0"%byte \/ ds = ["0"%byte]) ->
  let l := (if neg then ["-"%byte] else []) ++ ds in
  cur s + N.of_nat (List.length l) <= e -> slice m (cur s) (List.length l) = l -> follow (cur s + N.of_nat (List.length l)) ->
  RV (S f) s = Ret (Some (mk (int_literal_value c neg ds) (cur s) (cur s + N.of_nat (List.length l))))
                   (leave (with_cur (with_start (enter s) (cur s)) (cur s + N.of_nat (List.length l)))).
Proof.
  intros Hok Hne Hdig Hlead l Hle Hsl Hf.
  destruct ds as [|d0 ds']; [congruence|].
  assert (Hd0 : is_dig d0 = true) by (cbn [forallb] in Hdig; now apply andb_prop in Hdig as [? _]).
  destruct classes as (_ & Hdigc & (Hsg & Hsgn) & _).
  assert (Hsign : (if neg then ["-"%byte] else []) = [] /\ neg = false \/ (if neg then ["-"%byte] else []) = ["-"%byte] /\ neg = true \/
                  (if neg then ["-"%byte] else []) = ["+"%byte] /\ neg = false) by (destruct neg; auto).
  assert (Hlt : cur s < e) by (unfold l in Hle; rewrite app_length in Hle; cbn [List.length] in Hle; lia).
  rewrite RV_S. unfold value_body. cbv zeta. cbn [cur with_start enter].
  replace (cur s <? e) with true by (symmetry; now apply N.ltb_lt).
  destruct neg.
  - (* "-" digits *)
    unfold l in *. cbn [app] in *. cbn [List.length] in Hle, Hsl, Hf.
    assert (Hb : m (cur s) = "-"%byte) by (rewrite slice_S in Hsl; now injection Hsl).
    assert (Hb1 : m (cur s + 1) = d0) by (do 2 rewrite slice_S in Hsl; now injection Hsl).
    rewrite Hb. replace (prefilter (bz "-")) with false by reflexivity. cbn [cur with_start enter]. rewrite Hb.
    pose proof (not_earlier_spec c _ 6 ltac:(lia) Hsgn) as Hn.
    usecls Hn 0%nat; usecls Hn 1%nat; usecls Hn 2%nat; usecls Hn 3%nat; usecls Hn 4%nat; usecls Hn 5%nat. rewrite Hsg.
    replace (cur s + 1 <? e) with true by (symmetry; apply N.ltb_lt; lia). rewrite Hb1.
    change (Scan.is_digit d0) with (is_dig d0). rewrite Hd0. cbn [andb].
    rewrite (read_number_tok_decimal_integer c m e (with_start (enter s) (cur s)) true ["-"%byte] (d0 :: ds') Hsign ltac:(discriminate) Hdig Hlead)
      by (cbn [cur with_start enter app List.length]; assumption).
    reflexivity.
  - (* digits *)
    unfold l in *. cbn [app] in *. cbn [List.length] in Hle, Hsl, Hf.
    assert (Hb : m (cur s) = d0) by (rewrite slice_S in Hsl; now injection Hsl).
    destruct (Hdigc d0 Hd0) as [Hdc Hdn].
    assert (Hpf : prefilter (bz d0) = false).
    { destruct byte_facts as (_ & _ & Hbf & _). pose proof (byte_sweep _ Hbf d0) as Hs. cbv beta in Hs. rewrite Hd0 in Hs. cbn [orb implb] in Hs.
      apply andb_prop in Hs as [Hs _]. apply andb_prop in Hs as [Hs _]. now apply negb_true_iff. }
    rewrite Hb, Hpf. cbn [cur with_start enter]. rewrite Hb.
    pose proof (not_earlier_spec c _ 7 ltac:(lia) Hdn) as Hn.
    usecls Hn 0%nat; usecls Hn 1%nat; usecls Hn 2%nat; usecls Hn 3%nat; usecls Hn 4%nat; usecls Hn 5%nat; usecls Hn 6%nat. rewrite Hdc.
    rewrite (read_number_tok_decimal_integer c m e (with_start (enter s) (cur s)) false [] (d0 :: ds') Hsign ltac:(discriminate) Hdig Hlead)
      by (cbn [cur with_start enter app List.length]; assumption).
    reflexivity.
Qed.

Lemma rv_int_node f s (neg : bool) (ds : list byte) : is_ok s = true -> ds <> [] -> forallb is_dig ds = true ->
  (List.hd "0"%byte ds <> "0"%byte \/ ds = ["0"%byte]) ->
  let l := (if neg then ["-"%byte] else []) ++ ds in
  cur s + N.of_nat (List.length l) <= e -> slice m (cur s) (List.length l) = l -> follow (cur s + N.of_nat (List.length l)) ->
  exists s', RV (S f) s = Ret (Some (mk (int_literal_value c neg ds) (cur s) (cur s + N.of_nat (List.length l)))) s' /\
             cur s' = cur s + N.of_nat (List.length l) /\ is_ok s' = true /\ depth s' = depth s.
Proof.
  intros Hok Hne Hdig Hlead l Hle Hsl Hf. rewrite (rv_int_full f s neg ds Hok Hne Hdig Hlead Hle Hsl Hf).
  eexists. split; [reflexivity|]. cbn. repeat split; assumption.
Qed.
Lemma rv_int f s (neg : bool) (ds : list byte) : is_ok s = true -> ds <> [] -> forallb is_dig ds = true ->
  (List.hd "0"%byte ds <> "0"%byte \/ ds = ["0"%byte]) ->
  let l := (if neg then ["-"%byte] else []) ++ ds in
  cur s + N.of_nat (List.length l) <= e -> slice m (cur s) (List.length l) = l -> follow (cur s + N.of_nat (List.length l)) ->
  reads s (TInt neg ds) (cur s + N.of_nat (List.length l)) (RV (S f) s).
Proof.
  intros Hok Hne Hdig Hlead l Hle Hsl Hf. destruct (rv_int_node f s neg ds Hok Hne Hdig Hlead Hle Hsl Hf) as (s' & Hr & H1 & H2 & H3).
  rewrite Hr. eexists. exists s'. split; [reflexivity|]. split; [constructor; reflexivity|]. repeat split; assumption.
Qed.

(* a closing delimiter inside a collection ends the element loop: NULL without an error, cursor unmoved *)
Lemma rv_closer_full f s b : is_ok s = true -> depth s <> 0 -> cur s < e -> m (cur s) = b -> (b = "]"%byte \/ b = ")"%byte) ->
  RV (S f) s = Ret None (leave (with_start (enter s) (cur s))).
Proof.
  intros Hok Hd Hlt Hb Hbb.
  destruct classes as (_ & _ & _ & _ & _ & (Hc1 & Hn1) & (Hc2 & Hn2)).
  rewrite RV_S. unfold value_body. cbv zeta. cbn [cur with_start enter].
  replace (cur s <? e) with true by (symmetry; now apply N.ltb_lt). rewrite Hb.
  assert (Hpf : prefilter (bz b) = false) by (destruct Hbb as [-> | ->]; reflexivity).
  rewrite Hpf. cbn [cur with_start enter]. rewrite Hb.
  assert (Hcls : (dispatch_of c b =? ct_delim c)%Z = true /\ not_earlier c (dispatch_of c b) 8 = true) by (destruct Hbb as [-> | ->]; split; assumption).
  destruct Hcls as [Hdc Hdn]. pose proof (not_earlier_spec c _ 8 ltac:(lia) Hdn) as Hn.
  usecls Hn 0%nat; usecls Hn 1%nat; usecls Hn 2%nat; usecls Hn 3%nat; usecls Hn 4%nat; usecls Hn 5%nat; usecls Hn 6%nat; usecls Hn 7%nat.
  rewrite Hdc. cbn [depth with_start enter].
  replace (depth s =? 0) with false by (symmetry; now apply N.eqb_neq).
  reflexivity.
Qed.
Lemma rv_closer f s b : is_ok s = true -> depth s <> 0 -> cur s < e -> m (cur s) = b -> (b = "]"%byte \/ b = ")"%byte) ->
  exists s', RV (S f) s = Ret None s' /\ cur s' = cur s /\ is_ok s' = true /\ depth s' = depth s.
Proof.
  intros Hok Hd Hlt Hb Hbb. rewrite (rv_closer_full f s b Hok Hd Hlt Hb Hbb).
  eexists. split; [reflexivity|]. cbn. repeat split; assumption.
Qed.

(* ---- collections ---- *)
Definition tail_text (cl : byte) (l : list term) : bytes := List.concat (map (fun x => " "%byte :: pr x) l) ++ [cl].
Lemma sep_tail cl x t : sep (x :: t) ++ [cl] = pr x ++ tail_text cl t.
Proof.
  revert x. induction t as [|y t IH]; intros x; [unfold tail_text; cbn; reflexivity|].
  change (sep (x :: y :: t)) with (pr x ++ " "%byte :: sep (y :: t)). rewrite <- app_assoc. cbn [app]. rewrite IH.
  unfold tail_text. cbn [map List.concat]. rewrite <- !app_assoc. reflexivity.
Qed.

(* the first byte of a rendered term starts a form (it is neither white space nor a comment) *)
Lemma pr_first t : wft t -> exists b r, pr t = b :: r /\ is_ws b = false /\ is_semi b = false /\ prefilter (bz b) = false.
Proof.
  destruct byte_facts as (_ & _ & Hbf & _).
  assert (Hk : forall b, (is_dig b || Byte.eqb b ":" || Byte.eqb b "-" || Byte.eqb b "[" || Byte.eqb b "(" || Byte.eqb b "]" || Byte.eqb b ")") = true ->
               is_ws b = false /\ is_semi b = false /\ prefilter (bz b) = false).
  { intros b Hb. pose proof (byte_sweep _ Hbf b) as Hs. cbv beta in Hs. rewrite Hb in Hs. cbn [implb] in Hs.
    apply andb_prop in Hs as [Hs H3]. apply andb_prop in Hs as [H1 H2]. repeat split; now apply negb_true_iff. }
  destruct t as [nm|neg ds|l|l]; intros Hw.
  - exists ":"%byte, nm. split; [reflexivity|]. now apply Hk.
  - destruct Hw as (Hne & Hd & _). destruct neg.
    + exists "-"%byte, ds. split; [reflexivity|]. now apply Hk.
    + destruct ds as [|d r]; [congruence|]. exists d, r. split; [reflexivity|]. apply Hk.
      cbn [forallb] in Hd. apply andb_prop in Hd as [Hd _]. now rewrite Hd.
  - rewrite pr_vec. eexists. eexists. split; [reflexivity|]. now apply Hk.
  - rewrite pr_list. eexists. eexists. split; [reflexivity|]. now apply Hk.
Qed.

Definition Reads (s : pst) (t : term) (q : N) : Prop := exists f0, forall f, (f0 <= f)%nat -> reads s t q (RV f s).

(* what the induction hypothesis provides for the elements *)
Definition IHn (n : nat) : Prop := forall t, (tsize t <= n)%nat -> wft t -> forall s, is_ok s = true ->
  cur s + N.of_nat (List.length (pr t)) <= e -> slice m (cur s) (List.length (pr t)) = pr t ->
  follow (cur s + N.of_nat (List.length (pr t))) -> Reads s t (cur s + N.of_nat (List.length (pr t))).

Lemma follow_byte q b : q < e -> m q = b -> numdelim (bz b) = true -> follow q.
Proof. intros H1 H2 H3. right. split; [exact H1|now rewrite H2]. Qed.

(* the element loop on " x1 x2 ... xk<closer>" *)
Lemma elems_loop n cl : IHn n -> (cl = "]"%byte \/ cl = ")"%byte) -> forall l,
  Forall (fun x => (tsize x <= n)%nat /\ wft x) l -> forall s acc, is_ok s = true -> depth s <> 0 ->
  cur s + N.of_nat (List.length (tail_text cl l)) <= e -> slice m (cur s) (List.length (tail_text cl l)) = tail_text cl l ->
  exists f0, forall f, (f0 <= f)%nat -> exists xs s',
    RE f s acc = Ret (Some (rev acc ++ xs)) s' /\ Forall2 (denotes c) l xs /\
    cur s' + 1 = cur s + N.of_nat (List.length (tail_text cl l)) /\ is_ok s' = true /\ depth s' = depth s /\ m (cur s') = cl.
Proof.
  intros IH Hcl. induction l as [|x t IHl]; intros HF s acc Hok Hd Hle Hsl.
  - (* the closer *)
    unfold tail_text in *. cbn [map List.concat app List.length] in *. rewrite slice_S in Hsl. injection Hsl as Hb.
    exists 2%nat. intros f Hf. destruct f as [|[|f]]; try lia.
    destruct (rv_closer f s cl Hok Hd ltac:(lia) Hb Hcl) as (s' & Hr & Hc' & Hok' & Hd').
    rewrite RE_S. unfold elems_body. rewrite Hr. exists [], s'. rewrite app_nil_r.
    split; [reflexivity|]. split; [constructor|]. repeat split; try assumption; try lia. now rewrite Hc'.
  - inversion HF as [|? ? [Hsz Hw] HFt]; subst.
    destruct (pr_first x Hw) as (b & r & Epr & Hws & Hsemi & Hpf).
    (* layout: ' ' (pr x) (tail_text t) *)
    assert (Ett : tail_text cl (x :: t) = " "%byte :: pr x ++ tail_text cl t).
    { unfold tail_text. cbn [map List.concat]. rewrite <- app_assoc. reflexivity. }
    rewrite Ett in Hle, Hsl. cbn [List.length] in Hle, Hsl. rewrite app_length in Hle, Hsl.
    rewrite slice_S in Hsl. injection Hsl as Hsp Hsl. rewrite slice_app in Hsl. apply app_eq_len in Hsl; [|now rewrite slice_length].
    destruct Hsl as [Hx Ht].
    set (p1 := cur s + 1) in *. set (q := p1 + N.of_nat (List.length (pr x))) in *.
    assert (Htl : (0 < List.length (tail_text cl t))%nat) by (unfold tail_text; rewrite app_length; cbn; lia).
    assert (Hmq : m q = hd cl (tail_text cl t)).
    { destruct (tail_text cl t) as [|b0 r0] eqn:Et; [cbn in Htl; lia|]. cbn [List.length] in Ht. rewrite slice_S in Ht. now injection Ht. }
    assert (Hqd : numdelim (bz (m q)) = true).
    { rewrite Hmq. destruct byte_facts as (_ & _ & _ & N1 & N2 & N3 & _). destruct t as [|y t']; unfold tail_text; cbn [map List.concat app hd].
      - destruct Hcl as [-> | ->]; assumption.
      - exact N1. }
    (* the blank in front of x is absorbed *)
    set (s1 := with_cur s p1).
    assert (Hfs : form_starts m e p1).
    { right. split; [lia|]. assert (Hm1 : m p1 = b) by (rewrite Epr in Hx; cbn [List.length] in Hx; rewrite slice_S in Hx; now injection Hx).
      rewrite Hm1. split; assumption. }
    assert (Habs : forall f, RV (S f) s = RV (S f) s1).
    { intros f. apply (read_value_absorbs_trivia c o handler xe xh sort m e f s [" "%byte]); try reflexivity; try discriminate; cbn [List.length]; try lia.
      - rewrite slice_S. now rewrite Hsp.
      - exact Hfs. }
    destruct (IH x Hsz Hw s1 ltac:(unfold s1; assumption) ltac:(cbn; lia) Hx ltac:(cbn [cur s1 with_cur]; apply (follow_byte q (m q)); [lia|reflexivity|exact Hqd]))
      as (fx & Hfx).
    destruct (Hfx fx (le_n _)) as (nx & sx & Hrx & Hdx & Hcx & Hokx & Hdpx).
    cbn [cur s1 with_cur depth] in Hcx, Hdpx.
    destruct (IHl HFt sx (nx :: acc) Hokx ltac:(rewrite Hdpx; exact Hd) ltac:(rewrite Hcx; unfold q, p1; lia) ltac:(rewrite Hcx; exact Ht))
      as (ft & Hft).
    exists (S (Nat.max (S fx) ft)). intros f Hf. destruct f as [|f]; [lia|]. rewrite RE_S. unfold elems_body.
    destruct f as [|f]; [lia|]. rewrite Habs.
    assert (Hrx' : RV (S f) s1 = Ret (Some nx) sx).
    { replace (S f) with (fx + (S f - fx))%nat by lia. apply read_value_fuel_irrelevant; [exact Hrx|discriminate]. }
    rewrite Hrx'.
    destruct (Hft (S f) ltac:(lia)) as (xs & s' & Hre & Hden & Hc' & Hok' & Hd' & Hm').
    exists (nx :: xs), s'. split.
    { rewrite Hre. cbn [rev]. rewrite <- app_assoc. reflexivity. }
    split; [constructor; assumption|]. repeat split; try assumption.
    + rewrite Hc', Hcx, Ett. cbn [List.length]. rewrite app_length. unfold q, p1. lia.
    + rewrite Hd', Hdpx. reflexivity.
Qed.

(* the sequence reader on "x1 x2 ... xk<closer>" standing right behind the opener *)
Lemma seq_reads n K : IHn n -> (K = KVector \/ K = KList) -> forall l,
  Forall (fun x => (tsize x <= n)%nat /\ wft x) l -> forall s, is_ok s = true ->
  let cl := closer_of K in let body := sep l ++ [cl] in
  cur s + 1 + N.of_nat (List.length body) <= e -> slice m (cur s + 1) (List.length body) = body ->
  exists f0, forall f, (f0 <= f)%nat -> exists xs s',
    RS f K 1 s = Ret (Some (mk (match K with KVector => VVector xs | _ => VList xs end) (cur s) (cur s'))) s' /\
    Forall2 (denotes c) l xs /\ cur s' = cur s + 1 + N.of_nat (List.length body) /\ is_ok s' = true /\ depth s' = depth s.
Proof.
  intros IH HK l HF s Hok cl body Hle Hsl.
  assert (Hcl : cl = "]"%byte \/ cl = ")"%byte) by (unfold cl; destruct HK as [-> | ->]; [left|right]; reflexivity).
  set (s1 := with_depth (with_cur s (cur s + 1)) (depth s + 1)).
  assert (Hok1 : is_ok s1 = true) by exact Hok.
  assert (Hd1 : depth s1 <> 0) by (unfold s1; cbn; lia).
  (* the elements *)
  assert (Hel : exists f0, forall f, (f0 <= f)%nat -> exists xs s2,
            RE f s1 [] = Ret (Some xs) s2 /\ Forall2 (denotes c) l xs /\ cur s2 + 1 = cur s + 1 + N.of_nat (List.length body) /\
            is_ok s2 = true /\ depth s2 = depth s1 /\ m (cur s2) = cl).
  { destruct l as [|x t].
    - unfold body in *. cbn [sep app] in *.
      assert (Hc1 : cur s1 = cur s + 1) by reflexivity.
      assert (Ett : tail_text cl [] = [cl]) by reflexivity.
      destruct (elems_loop n cl IH Hcl [] (Forall_nil _) s1 [] Hok1 Hd1 ltac:(rewrite Hc1, Ett; exact Hle) ltac:(rewrite Hc1, Ett; exact Hsl)) as (f0 & Hf0).
      exists f0. intros f Hf. destruct (Hf0 f Hf) as (xs & s2 & H1 & H2 & H3 & H4 & H5 & H6). exists xs, s2.
      cbn [rev app] in H1. repeat split; assumption.
    - inversion HF as [|? ? [Hsz Hw] HFt]; subst. unfold body in *. rewrite sep_tail in *. rewrite app_length in Hle, Hsl.
      rewrite slice_app in Hsl. apply app_eq_len in Hsl; [|now rewrite slice_length]. destruct Hsl as [Hx Ht].
      set (q := cur s + 1 + N.of_nat (List.length (pr x))) in *.
      assert (Htl : (0 < List.length (tail_text cl t))%nat) by (unfold tail_text; rewrite app_length; cbn; lia).
      assert (Hmq : m q = hd cl (tail_text cl t)).
      { destruct (tail_text cl t) as [|b0 r0] eqn:Et; [cbn in Htl; lia|]. cbn [List.length] in Ht. rewrite slice_S in Ht. now injection Ht. }
      assert (Hqd : numdelim (bz (m q)) = true).
      { rewrite Hmq. destruct byte_facts as (_ & _ & _ & N1 & N2 & N3 & _). destruct t as [|y t']; unfold tail_text; cbn [map List.concat app hd].
        - destruct Hcl as [-> | ->]; assumption.
        - exact N1. }
      destruct (IH x Hsz Hw s1 Hok1 ltac:(cbn; lia) Hx ltac:(cbn [cur s1 with_cur with_depth]; apply (follow_byte q (m q)); [lia|reflexivity|exact Hqd]))
        as (fx & Hfx).
      destruct (Hfx fx (le_n _)) as (nx & sx & Hrx & Hdx & Hcx & Hokx & Hdpx). cbn [cur s1 with_cur with_depth] in Hcx.
      destruct (elems_loop n cl IH Hcl t HFt sx [nx] Hokx ltac:(rewrite Hdpx; exact Hd1) ltac:(rewrite Hcx; unfold q; lia) ltac:(rewrite Hcx; exact Ht))
        as (ft & Hft).
      exists (S (Nat.max fx ft)). intros f Hf. destruct f as [|f]; [lia|]. rewrite RE_S. unfold elems_body.
      assert (Hrx' : RV f s1 = Ret (Some nx) sx).
      { replace f with (fx + (f - fx))%nat by lia. apply read_value_fuel_irrelevant; [exact Hrx|discriminate]. }
      rewrite Hrx'. destruct (Hft f ltac:(lia)) as (xs & s2 & H1 & H2 & H3 & H4 & H5 & H6).
      exists (nx :: xs), s2. cbn [rev app] in H1. split; [exact H1|]. split; [constructor; assumption|].
      split; [rewrite H3, Hcx, app_length; unfold q; lia|]. split; [exact H4|]. split; [rewrite H5, Hdpx; reflexivity|exact H6]. }
  destruct Hel as (f0 & Hf0). exists (S f0). intros f Hf. destruct f as [|f]; [lia|].
  destruct (Hf0 f ltac:(lia)) as (xs & s2 & H1 & H2 & H3 & H4 & H5 & H6).
  rewrite RS_S. unfold seq_body. fold s1. rewrite H1, H4. cbn [negb].
  replace (e <=? cur s2) with false by (symmetry; apply N.leb_gt; lia).
  rewrite H6. fold cl. rewrite (Byte.byte_dec_lb eq_refl). cbn [negb].
  set (s3 := with_depth (with_cur s2 (cur s2 + 1)) (depth s2 - 1)).
  exists xs, s3.
  assert (Hc3 : cur s3 = cur s + 1 + N.of_nat (List.length body)) by (unfold s3; cbn; lia).
  assert (Hd3 : depth s3 = depth s) by (unfold s3; cbn; rewrite H5; unfold s1; cbn; lia).
  destruct HK as [-> | ->]; (split; [reflexivity|]); repeat split; assumption.
Qed.

(* a collection through the dispatcher *)
Lemma rv_seq n (vec : bool) : IHn n -> forall l, Forall (fun x => (tsize x <= n)%nat /\ wft x) l -> forall s, is_ok s = true ->
  let t := if vec then TVec l else TList l in
  cur s + N.of_nat (List.length (pr t)) <= e -> slice m (cur s) (List.length (pr t)) = pr t ->
  Reads s t (cur s + N.of_nat (List.length (pr t))).
Proof.
  intros IH l HF s Hok t Hle Hsl.
  set (K := if vec then KVector else KList). set (op := if vec then "["%byte else "("%byte).
  assert (Hpr : pr t = op :: sep l ++ [closer_of K]) by (unfold t, op, K; destruct vec; reflexivity).
  rewrite Hpr in Hle, Hsl |- *. cbn [List.length] in Hle, Hsl |- *. rewrite slice_S in Hsl. injection Hsl as Hb Hbody.
  assert (Hlt : cur s < e) by lia.
  set (s0 := with_start (enter s) (cur s)).
  assert (Hk : K = KVector \/ K = KList) by (unfold K; destruct vec; auto).
  destruct (seq_reads n K IH Hk l HF s0 Hok ltac:(cbn [cur s0 with_start enter]; lia) Hbody) as (f0 & Hf0).
  exists (S f0). intros f Hf. destruct f as [|f]; [lia|].
  destruct (Hf0 f ltac:(lia)) as (xs & s' & Hr & Hden & Hc' & Hok' & Hd').
  assert (Hdisp : RV (S f) s = match RS f K 1 s0 with Ret v s1 => Ret v (leave s1) | x => x end).
  { destruct classes as (_ & _ & _ & (Hv1 & Hv2) & (Hl1 & Hl2) & _).
    rewrite RV_S. unfold value_body. cbv zeta. cbn [cur with_start enter].
    replace (cur s <? e) with true by (symmetry; now apply N.ltb_lt). rewrite Hb.
    assert (Hpf : prefilter (bz op) = false) by (unfold op; destruct vec; reflexivity). rewrite Hpf.
    cbn [cur with_start enter]. rewrite Hb. fold s0. unfold op, K. destruct vec.
    - pose proof (not_earlier_spec c _ 3 ltac:(lia) Hv2) as Hn. usecls Hn 0%nat; usecls Hn 1%nat; usecls Hn 2%nat. rewrite Hv1. destruct (RS f KVector 1 s0); reflexivity.
    - pose proof (not_earlier_spec c _ 2 ltac:(lia) Hl2) as Hn. usecls Hn 0%nat; usecls Hn 1%nat. rewrite Hl1. destruct (RS f KList 1 s0); reflexivity. }
  rewrite Hdisp, Hr. eexists. eexists. split; [reflexivity|]. split.
  - unfold t, K. destruct vec; econstructor; try reflexivity; exact Hden.
  - cbn [cur leave]. rewrite Hc'. cbn [cur s0 with_start enter depth leave is_ok err] in *.
    split; [lia|]. split; [exact Hok'|exact Hd'].
Qed.

(* ---- the theorem: every well-formed term of the fragment, any size and nesting ---- *)
Lemma fold_size_Forall n l : (fold_right (fun x a => tsize x + a)%nat O l <= n)%nat -> fold_right (fun x a => wft x /\ a) True l ->
  Forall (fun x => (tsize x <= n)%nat /\ wft x) l.
Proof.
  induction l as [|x t IH]; cbn [fold_right]; intros Hs Hw; [constructor|]. destruct Hw as [Hx Ht].
  constructor; [split; [lia|exact Hx]|apply IH; [lia|exact Ht]].
Qed.

Theorem read_term : forall n, IHn n.
Proof.
  induction n as [|n IH]; intros t Hsz Hw s Hok Hle Hsl Hf.
  - destruct t; cbn in Hsz; lia.
  - destruct t as [nm|neg ds|l|l].
    + destruct Hw as [Hne Hid]. exists 1%nat. intros f Hf1. destruct f as [|f]; [lia|]. now apply rv_keyword.
    + destruct Hw as (Hne & Hd & Hl). exists 1%nat. intros f Hf1. destruct f as [|f]; [lia|]. now apply rv_int.
    + cbn [tsize] in Hsz. apply (rv_seq n true IH l (fold_size_Forall n l ltac:(lia) Hw) s Hok Hle Hsl).
    + cbn [tsize] in Hsz. apply (rv_seq n false IH l (fold_size_Forall n l ltac:(lia) Hw) s Hok Hle Hsl).
Qed.
End RT.

(* ---- the document: as the model is run (fuel 8 + 4 * length, the harness's handlers, any options) ---- *)
From Verif Require Import ReaderInv.

Theorem read_document c o m t : In c all_cfgs -> wft t ->
  slice m 0 (List.length (pr t)) = pr t ->
  exists r s n, run_doc c o m (N.of_nat (List.length (pr t))) = Ret r s /\
                r_value r = Some n /\ denotes c t n /\ r_err r = EOk /\ r_eof r = false.
Proof.
  intros Hc Hw Hsl. set (e := N.of_nat (List.length (pr t))).
  destruct (read_term c Hc o builtin_handler no_ext_equal no_ext_hash (isort c) m e (tsize t) t (le_n _) Hw init_pst eq_refl
              ltac:(cbn [cur init_pst]; unfold e; lia) Hsl ltac:(left; cbn [cur init_pst]; unfold e; lia)) as (f0 & Hf0).
  destruct (Hf0 f0 (le_n _)) as (n & s' & Hr & Hden & Hcur & Hok & Hdep).
  assert (Herr : err s' = EOk) by (now apply is_ok_iff).
  assert (Hdoc : exists r, read_doc c o builtin_handler no_ext_equal no_ext_hash (isort c) m e f0 = Ret r s' /\
                           r_value r = Some n /\ r_err r = EOk /\ r_eof r = false).
  { unfold read_doc. rewrite Hr. cbv zeta. rewrite Hok.
    assert (Heof : is_eof s' = false) by (unfold is_eof; now rewrite Herr). rewrite Heof. cbn [andb].
    eexists. split; [reflexivity|]. cbn. repeat split; assumption. }
  destruct Hdoc as (r & Hrd & Hv & He & Hf).
  exists r, s', n. split; [|repeat split; assumption].
  apply (any_fuel_is_the_run c o m e f0 _ Hc Hrd). discriminate.
Qed.
