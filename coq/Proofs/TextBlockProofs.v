(* Proofs/TextBlockProofs.v -- properties of the text-block rendering (string.c text block
   model in Model/Reader.v): trailing-blank stripping, minimum indentation, trailing newline,
   escaped triple quotes, and the resulting value as an ordinary string. *)
From Coq Require Import ZArith NArith List Bool Lia String.
From Coq.Strings Require Import Byte.
From Verif Require Import Lanes Common Values Scan Numbers Equality Tokens Reader.
Import ListNotations.
Local Open Scope list_scope.
Local Open Scope N_scope.

(* ---- trailing blanks *)
Lemma rstrip_blank_spec l :
  exists suf, l = rstrip_blank l ++ suf /\ forallb is_blank suf = true /\
              (rstrip_blank l = [] \/ is_blank (last (rstrip_blank l) "000"%byte) = false).
Proof.
  induction l as [|b t IH]; cbn [rstrip_blank].
  - exists []. auto.
  - destruct IH as [suf [Heq [Hb Hl]]]. destruct (rstrip_blank t) as [|r0 r] eqn:Hr.
    + destruct (is_blank b) eqn:Hbb.
      * exists (b :: suf). cbn [app] in *. rewrite Heq at 1. split; [reflexivity|]. cbn. rewrite Hbb, Hb. auto.
      * exists suf. cbn [app] in *. split; [now rewrite Heq at 1|]. split; [assumption|]. right. cbn. assumption.
    + exists suf. split; [cbn [app]; now rewrite Heq at 1|]. split; [assumption|]. right.
      destruct Hl as [Hl|Hl]; [discriminate|]. exact Hl.
Qed.

Lemma rstrip_blank_idem l : rstrip_blank (rstrip_blank l) = rstrip_blank l.
Proof.
  induction l as [|b t IH]; cbn [rstrip_blank]; [reflexivity|].
  destruct (rstrip_blank t) as [|r0 r] eqn:Hr.
  - destruct (is_blank b) eqn:Hb; cbn [rstrip_blank]; [reflexivity|]. now rewrite Hb.
  - cbn [rstrip_blank]. cbn [rstrip_blank] in IH. rewrite IH. reflexivity.
Qed.

(* a line without trailing blanks is left alone *)
Lemma rstrip_blank_id l : (l = [] \/ is_blank (last l "000"%byte) = false) -> rstrip_blank l = l.
Proof.
  induction l as [|b t IH]; intros H; cbn [rstrip_blank]; [reflexivity|].
  destruct t as [|b2 t2].
  - cbn. destruct H as [H|H]; [discriminate|]. cbn in H. now rewrite H.
  - rewrite IH; [reflexivity|]. right. destruct H as [H|H]; [discriminate|]. exact H.
Qed.

(* ---- minimum indentation *)
Definition counts (l : tline) : bool := negb (match tl_content l with [] => true | _ => false end) || tl_terminal l.

Lemma tb_indent_fold ls acc :
  fold_left (fun acc l => if counts l then match acc with None => Some (ws_prefix_len l) | Some a => Some (N.min a (ws_prefix_len l)) end else acc) ls acc
  = match acc, filter counts ls with
    | None, [] => None
    | None, l0 :: r => Some (fold_left (fun a l => N.min a (ws_prefix_len l)) r (ws_prefix_len l0))
    | Some a, r => Some (fold_left (fun a l => N.min a (ws_prefix_len l)) r a)
    end.
Proof.
  revert acc. induction ls as [|l t IH]; intros acc; cbn [fold_left filter].
  - destruct acc; reflexivity.
  - rewrite IH. destruct (counts l); destruct acc; reflexivity.
Qed.

Lemma fold_min_le r a : fold_left (fun a l => N.min a (ws_prefix_len l)) r a <= a /\
  (forall l, In l r -> fold_left (fun a l => N.min a (ws_prefix_len l)) r a <= ws_prefix_len l) /\
  (fold_left (fun a l => N.min a (ws_prefix_len l)) r a = a \/
   exists l, In l r /\ fold_left (fun a l => N.min a (ws_prefix_len l)) r a = ws_prefix_len l).
Proof.
  revert a. induction r as [|x t IH]; intros a; cbn [fold_left].
  - split; [lia|]. split; [intros l []|]. left. reflexivity.
  - destruct (IH (N.min a (ws_prefix_len x))) as [H1 [H2 H3]]. split; [lia|]. split.
    + intros l [<-|Hl]; [lia|]. now apply H2.
    + destruct H3 as [H3|[l [Hl H3]]].
      * destruct (N.min_spec a (ws_prefix_len x)) as [[_ Hm]|[_ Hm]]; rewrite Hm in *.
        -- left. exact H3.
        -- right. exists x. split; [now left|exact H3].
      * right. exists l. split; [now right|exact H3].
Qed.

(* the indentation removed is the minimum over the lines that have content and the line that
   carries the closing delimiter; blank lines do not count *)
Theorem tb_indent_is_min ls n : tb_indent ls = Some n ->
  (forall l, In l ls -> counts l = true -> n <= ws_prefix_len l) /\
  (exists l, In l ls /\ counts l = true /\ ws_prefix_len l = n).
Proof.
  unfold tb_indent. fold counts.
  change (fold_left _ ls None) with
    (fold_left (fun acc l => if counts l then match acc with None => Some (ws_prefix_len l) | Some a => Some (N.min a (ws_prefix_len l)) end else acc) ls None).
  rewrite tb_indent_fold. destruct (filter counts ls) as [|l0 r] eqn:Hf; [discriminate|].
  intros H. injection H as <-.
  assert (Hin : forall l, In l (l0 :: r) <-> In l ls /\ counts l = true) by (intros l; rewrite <- Hf; apply filter_In).
  destruct (fold_min_le r (ws_prefix_len l0)) as [H1 [H2 H3]]. split.
  - intros l Hl Hc. destruct (proj2 (Hin l) (conj Hl Hc)) as [<-|Hr]; [exact H1|now apply H2].
  - destruct H3 as [H3|[l [Hl H3]]].
    + exists l0. destruct (proj1 (Hin l0) (or_introl eq_refl)) as [Ha Hb]. auto.
    + exists l. destruct (proj1 (Hin l) (or_intror Hl)) as [Ha Hb]. auto.
Qed.

Theorem tb_indent_none ls : tb_indent ls = None -> forall l, In l ls -> counts l = false.
Proof.
  unfold tb_indent. fold counts.
  change (fold_left _ ls None) with
    (fold_left (fun acc l => if counts l then match acc with None => Some (ws_prefix_len l) | Some a => Some (N.min a (ws_prefix_len l)) end else acc) ls None).
  rewrite tb_indent_fold. destruct (filter counts ls) as [|l0 r] eqn:Hf; [|discriminate].
  intros _ l Hl. destruct (counts l) eqn:Hc; [|reflexivity].
  assert (In l (filter counts ls)) by (apply filter_In; auto). rewrite Hf in H. destruct H.
Qed.

(* ---- one rendered line: relative indentation kept, trailing blanks gone, newline kept *)
Theorem tb_render_line_spec lwp l :
  tb_render_line lwp l =
  (match tl_content l with
   | [] => []
   | _ => skipn (N.to_nat (N.min lwp (ws_prefix_len l))) (tl_ws l) ++
          (let body := rstrip_blank (tl_content l) in if tl_escaped l then tb_unescape (S (List.length body)) body else body)
   end) ++ (if tl_newline l then ["010"%byte] else []).
Proof. unfold tb_render_line. destruct (tl_content l); reflexivity. Qed.

(* a blank line (no content) contributes exactly its line feed, whatever blanks it holds *)
Lemma tb_render_blank_line lwp l : tl_content l = [] -> tb_render_line lwp l = if tl_newline l then ["010"%byte] else [].
Proof. intros H. unfold tb_render_line. now rewrite H. Qed.

(* the result ends with a line feed exactly when the closing delimiter stands on its own line
   (the terminal line has no content) and the block has at least one earlier line *)
Theorem tb_render_snoc ls last :
  tb_render (ls ++ [last]) =
  List.concat (map (tb_render_line (match tb_indent (ls ++ [last]) with Some n => n | None => 0 end)) ls)
  ++ tb_render_line (match tb_indent (ls ++ [last]) with Some n => n | None => 0 end) last.
Proof. unfold tb_render. rewrite map_app, concat_app. cbn [map List.concat]. now rewrite app_nil_r. Qed.

Theorem tb_render_closing_own_line ls last :
  tl_content last = [] -> tl_newline last = false ->
  tb_render (ls ++ [last]) =
  List.concat (map (tb_render_line (match tb_indent (ls ++ [last]) with Some n => n | None => 0 end)) ls).
Proof. intros Hc Hn. rewrite tb_render_snoc, tb_render_blank_line by assumption. rewrite Hn. now rewrite app_nil_r. Qed.

(* ---- escaped triple quotes *)
Lemma tb_unescape_head f t :
  tb_unescape (S f) ("\"%byte :: """"%byte :: """"%byte :: """"%byte :: t) = """"%byte :: """"%byte :: """"%byte :: tb_unescape f t.
Proof. reflexivity. Qed.

Lemma tb_unescape_other f a b c d t :
  is_bslash a && is_quote b && is_quote c && is_quote d = false ->
  tb_unescape (S f) (a :: b :: c :: d :: t) = a :: tb_unescape f (b :: c :: d :: t).
Proof. intros H. cbn [tb_unescape]. now rewrite H. Qed.

Lemma tb_unescape_short f l : (List.length l < 4)%nat -> tb_unescape f l = l.
Proof. destruct f; [reflexivity|]. destruct l as [|a [|b [|c [|d t]]]]; cbn; intros; try reflexivity; lia. Qed.

(* output never longer than input: the two-pass length computation can rely on it *)
Lemma tb_unescape_length f l : (List.length (tb_unescape f l) <= List.length l)%nat.
Proof.
  revert l. induction f as [|f IH]; intros l; [cbn; lia|].
  destruct l as [|a [|b [|c [|d t]]]]; cbn [tb_unescape]; try lia.
  destruct (is_bslash a && is_quote b && is_quote c && is_quote d).
  - cbn [List.length]. specialize (IH t). lia.
  - cbn [List.length]. specialize (IH (b :: c :: d :: t)). cbn [List.length] in IH. lia.
Qed.

(* ---- the value: an ordinary string *)
Section Val.
Variable c : cfg.
Variable xe : Z -> option (Z -> Z -> bool).
Variable xh : Z -> option (Z -> Z).

Lemma bytes_eqb_refl l : bytes_eqb l l = true.
Proof. induction l as [|b t IH]; cbn; [reflexivity|]. rewrite IH. destruct b; reflexivity. Qed.

(* a block without escaped triple quotes is equal to, and hashes like, the ordinary literal
   whose bytes are the rendered content; its reported length is the exact content length *)
Theorem text_block_as_string body p q p' q' :
  equal c xe (mk (VString body false (Some body)) p q) (mk (VString body false None) p' q') = true /\
  hash_value c xh (mk (VString body false (Some body)) p q) = hash_value c xh (mk (VString body false None) p' q') /\
  string_get c (VString body false (Some body)) = Some (body, N.of_nat (List.length body)).
Proof.
  split; [|split; reflexivity].
  unfold equal, max_depth. destruct (Z.to_nat MAX_RECURSION_DEPTH) eqn:Hd; [vm_compute in Hd; discriminate|].
  cbn [equal_fuel mk nval nhash]. rewrite Z.eqb_refl. cbn [negb andb]. rewrite bytes_eqb_refl. reflexivity.
Qed.
End Val.
