(* Proofs/Audit.v -- obligations on the syntactic audit lists GENERATED from the C source:
   every vector load is dominated by a guard `p + k <= end` on the loaded pointer with k >= 16;
   every lookup-table subscript has an unsigned-char index; the only file-scope mutable object
   is the external-type registry; the escape labels per flag set. *)
From Coq Require Import ZArith List Bool String.
From Verif Require Import Lanes Common.
From Verif Require G00 G10 G01 G11.
Import ListNotations.
Local Open Scope string_scope.

Definition load_ok (x : string * string * Z) : bool := (16 <=? snd x)%Z.

Lemma loads_guarded :
  forallb load_ok G00.vector_load_sites = true /\ forallb load_ok G10.vector_load_sites = true /\
  forallb load_ok G01.vector_load_sites = true /\ forallb load_ok G11.vector_load_sites = true.
Proof. repeat split; reflexivity. Qed.

(* the functions containing vector loads are the ones the scanner models cover *)
Lemma load_sites_modelled :
  map (fun x => fst (fst x)) G11.vector_load_sites =
  ["edn_simd_skip_whitespace"; "edn_simd_find_newline_sse"; "edn_simd_find_quote"; "edn_simd_scan_digits";
   "newline_find_all_simd"; "edn_parse_text_block_line"; "simd_scan_line_content"] /\
  map (fun x => fst (fst x)) G00.vector_load_sites =
  ["edn_simd_skip_whitespace"; "edn_simd_find_newline_sse"; "edn_simd_find_quote"; "edn_simd_scan_digits";
   "newline_find_all_simd"].
Proof. split; reflexivity. Qed.

Definition byte_indexed (s : string) : bool :=
  let suffix := "unsigned char" in
  let n := String.length s in let k := String.length suffix in
  String.eqb (substring (n - k) k s) suffix.

Lemma subscripts_byte_indexed :
  forallb byte_indexed G00.table_subscripts = true /\ forallb byte_indexed G10.table_subscripts = true /\
  forallb byte_indexed G01.table_subscripts = true /\ forallb byte_indexed G11.table_subscripts = true.
Proof. repeat split; reflexivity. Qed.

Lemma only_mutable_global :
  G00.mutable_globals = ["edn.c:g_external_type_registry"] /\ G10.mutable_globals = ["edn.c:g_external_type_registry"] /\
  G01.mutable_globals = ["edn.c:g_external_type_registry"] /\ G11.mutable_globals = ["edn.c:g_external_type_registry"].
Proof. repeat split; reflexivity. Qed.

(* escape labels of decode_escape_sequence: core set, and core + Clojure set *)
Lemma escape_label_sets :
  G00.escape_labels = [34; 92; 110; 116; 114]%Z /\ G01.escape_labels = [34; 92; 110; 116; 114]%Z /\
  G10.escape_labels = [34; 92; 110; 116; 114; 102; 98; 117; 48; 49; 50; 51; 52; 53; 54; 55]%Z /\
  G11.escape_labels = G10.escape_labels.
Proof. repeat split; reflexivity. Qed.

Lemma common_items_flag_independent : common_items_agree = true.
Proof. reflexivity. Qed.
