(* Proofs/RoundTripLookup.v -- C09 for whole documents: in the map the reader returns for a map literal over the fragment
   (RoundTripMap), looking up ANY value that denotes the term of key i -- an independently read copy of that key, read
   from any buffer, with any trivia -- yields entry i, contains-key reports true, and the value stored there denotes the
   i-th value term; whatever the duplicate check did to the hash caches of the keys on the way. *)
From Coq Require Import ZArith NArith List Bool Lia String Permutation Sorted.
From Coq.Strings Require Import Byte.
From Verif Require Import Lanes Common Values Floats Scan ScanFacts Numbers Equality Api Tokens Reader Configs ByteSweep ScanProofs
     FidelityProofs NumProgress NumLiteral FlagProofs FuelMono TriviaProofs TriviaReader ReaderInv EqBasics EqEquiv HashDup SortDup History LookupIndex
     RoundTrip RoundTripWs RoundTripEq RoundTripGap RoundTripErr RoundTripSet RoundTripMap.
Import ListNotations.
Local Open Scope N_scope.

Section REL.
Variable c : cfg.
Notation xe := no_ext_equal.
Notation xh := no_ext_hash.
Notation hc := (hash_cache c xh).

(* what the duplicate check may do to an element: nothing, or cache its hash *)
Definition touched (x y : node) : Prop := y = x \/ y = hc x.

Lemma dup_hash_loop_touched sort : forall l tbl size done,
  exists r, snd (dup_hash_loop c xe xh sort l tbl size done) = rev done ++ r /\ Forall2 touched l r.
Proof.
  assert (Hid : forall t : list node, Forall2 touched t t) by (induction t; constructor; [now left|assumption]).
  induction l as [|x t IH]; intros tbl size done; cbn [dup_hash_loop].
  - exists []. cbn [snd]. rewrite app_nil_r. split; [reflexivity|constructor].
  - destruct (probe _ _ _ _ _ _ _ _) as [[[|] slot]|]; cbn [snd].
    + exists (hc x :: t). split; [reflexivity|]. constructor; [now right|apply Hid].
    + destruct (IH (set_nth (Z.to_nat slot) (Some (hc x, nhash (hc x))) tbl) size (hc x :: done)) as (r & E & HF).
      exists (hc x :: r). rewrite E. cbn [rev]. rewrite <- app_assoc. split; [reflexivity|]. constructor; [now right|exact HF].
    + exists (hc x :: t). split; [reflexivity|]. constructor; [now right|apply Hid].
Qed.

Lemma has_duplicates_touched sort l : Forall2 touched l (snd (has_duplicates c xe xh sort l)).
Proof.
  assert (Hid : forall t : list node, Forall2 touched t t) by (induction t; constructor; [now left|assumption]).
  unfold has_duplicates. destruct (_ <=? 1)%Z; [apply Hid|]. destruct (_ <=? LINEAR_THRESHOLD)%Z; [apply Hid|].
  destruct (_ && _); [apply Hid|]. unfold dup_hash.
  destruct (dup_hash_loop_touched sort l (repeat None (Z.to_nat (table_size (Z.of_nat (List.length l))))) (table_size (Z.of_nat (List.length l))) []) as (r & E & HF).
  rewrite E. exact HF.
Qed.

Lemma touched_simple x y : touched x y -> simple c x -> coherent c xh x -> simple c y /\ coherent c xh y.
Proof.
  intros [->| ->] Hs Hc; [split; assumption|]. split.
  - destruct Hs as [v Hv]. exists v. unfold hash_cache. now rewrite nf_set_hash.
  - unfold coherent in *. destruct max_depth as [|md] eqn:E; [exact I|]. now apply cache_ok_hc.
Qed.

Lemma touched_equal x y x' y' : touched x x' -> touched y y' -> simple c x -> coherent c xh x -> coherent c xh y ->
  equal c xe x' y' = equal c xe x y.
Proof.
  intros Hx Hy Hs Hcx Hcy. destruct (equal_after_hashing c xe xh x y Hs Hcx Hcy) as (E1 & E2 & E3).
  destruct Hx as [->| ->], Hy as [->| ->]; congruence.
Qed.
End REL.

Section LK.
Variable c : cfg.
Hypothesis Hc : In c all_cfgs.
Notation xe := no_ext_equal.
Notation xh := no_ext_hash.

Lemma existsb_touched x x' t t' : touched c x x' -> Forall2 (touched c) t t' -> simple c x -> coherent c xh x -> Forall (coherent c xh) t ->
  existsb (fun y => equal c xe x' y) t' = existsb (fun y => equal c xe x y) t.
Proof.
  intros Hx HF Hs Hcx. induction HF as [|y y' t t' Hy HF IH]; intros Hct; [reflexivity|]. cbn [existsb].
  rewrite (IH (Forall_inv_tail Hct)). f_equal. exact (touched_equal c x y x' y' Hx Hy Hs Hcx (Forall_inv Hct)).
Qed.
Lemma dup_linear_touched l l' : Forall2 (touched c) l l' -> Forall (simple c) l -> Forall (coherent c xh) l ->
  dup_linear c xe l' = dup_linear c xe l.
Proof.
  intros HF. induction HF as [|x x' t t' Hx HF IH]; intros Hs Hco; [reflexivity|]. cbn [dup_linear].
  rewrite (IH (Forall_inv_tail Hs) (Forall_inv_tail Hco)). f_equal.
  exact (existsb_touched x x' t t' Hx HF (Forall_inv Hs) (Forall_inv Hco) (Forall_inv_tail Hco)).
Qed.
Lemma touched_all l l' : Forall2 (touched c) l l' -> Forall (simple c) l -> Forall (coherent c xh) l ->
  Forall (simple c) l' /\ Forall (coherent c xh) l'.
Proof.
  intros HF. induction HF as [|x x' t t' Hx HF IH]; intros Hs Hco; [split; constructor|].
  destruct (IH (Forall_inv_tail Hs) (Forall_inv_tail Hco)) as [I1 I2].
  destruct (touched_simple c x x' Hx (Forall_inv Hs) (Forall_inv Hco)) as [S1 C1]. split; constructor; assumption.
Qed.

Lemma denotes_simple ts xs : Forall2 (denotes c) ts xs -> Forall (fun t => (tdepth t <= max_depth)%nat) ts ->
  Forall (simple c) xs /\ Forall (coherent c xh) xs.
Proof.
  intros HF Hdep. induction HF as [|t x ts' xs' Htx HF IH]; [split; constructor|].
  destruct (IH (Forall_inv_tail Hdep)) as [I1 I2].
  destruct (denotes_nf c xh max_depth t x (Forall_inv Hdep) Htx) as [N1 C1]. split; constructor; try assumption. now exists (canon c t).
Qed.

Lemma dup_linear_terms ts xs : Forall2 (denotes c) ts xs -> Forall (fun t => (tdepth t <= max_depth)%nat) ts ->
  (dup_linear c xe xs = true <-> has_equal_terms c ts).
Proof.
  intros HF Hdep. rewrite (dup_linear_iff c xe). unfold has_equal_pair, has_equal_terms. split.
  - intros (l1 & x & l2 & y & l3 & -> & He).
    apply Forall2_app_inv_r in HF. destruct HF as (t1 & r1 & F1 & Fr & ->). inversion Fr as [|tx ? r2 ? Hx Fr2]; subst.
    apply Forall2_app_inv_r in Fr2. destruct Fr2 as (t2 & r3 & F2 & Fr3 & ->). inversion Fr3 as [|ty ? t3 ? Hy F3]; subst.
    exists t1, tx, t2, ty, t3. split; [reflexivity|].
    rewrite Forall_app in Hdep. destruct Hdep as [_ Hd]. pose proof (Forall_inv Hd) as Hdx. apply Forall_inv_tail in Hd.
    rewrite Forall_app in Hd. destruct Hd as [_ Hd]. pose proof (Forall_inv Hd) as Hdy.
    now apply (denotes_equal_iff c xe xh tx ty x y Hdx Hdy Hx Hy).
  - intros (t1 & tx & t2 & ty & t3 & -> & He).
    apply Forall2_app_inv_l in HF. destruct HF as (l1 & r1 & F1 & Fr & ->). inversion Fr as [|? x ? r2 Hx Fr2]; subst.
    apply Forall2_app_inv_l in Fr2. destruct Fr2 as (l2 & r3 & F2 & Fr3 & ->). inversion Fr3 as [|? y ? l3 Hy F3]; subst.
    exists l1, x, l2, y, l3. split; [reflexivity|].
    rewrite Forall_app in Hdep. destruct Hdep as [_ Hd]. pose proof (Forall_inv Hd) as Hdx. apply Forall_inv_tail in Hd.
    rewrite Forall_app in Hd. destruct Hd as [_ Hd]. pose proof (Forall_inv Hd) as Hdy.
    now apply (denotes_equal_iff c xe xh tx ty x y Hdx Hdy Hx Hy).
Qed.

Lemma F2_nth {A B} (R : A -> B -> Prop) l1 l2 i da db : Forall2 R l1 l2 -> (i < List.length l1)%nat -> R (nth i l1 da) (nth i l2 db).
Proof.
  intros HF. revert i. induction HF as [|a b t1 t2 Hab HF IH]; intros i Hi; [cbn in Hi; lia|].
  destruct i as [|i]; [exact Hab|]. cbn [nth]. apply IH. cbn [List.length] in Hi. lia.
Qed.

(* the keys as the reader leaves them: lookup of any value denoting key term i finds entry i *)
Lemma lookup_in_read_map ts kx ks' vs a b : Forall2 (denotes c) ts kx -> Forall (fun t => (tdepth t <= max_depth)%nat) ts ->
  ~ has_equal_terms c ts -> Forall2 (touched c) kx ks' ->
  forall i p, (i < List.length ts)%nat -> denotes c (nth i ts (TKw [])) p ->
  map_lookup c xe (mk (VMap ks' vs) a b) p = Some i /\ map_contains c xe (mk (VMap ks' vs) a b) p = true.
Proof.
  intros Hdk Hdep Hne Hto i p Hi Hp.
  destruct (denotes_simple ts kx Hdk Hdep) as [Hs Hco]. destruct (touched_all kx ks' Hto Hs Hco) as [Hs' Hco'].
  assert (Hnd : dup_linear c xe ks' = false).
  { rewrite (dup_linear_touched kx ks' Hto Hs Hco). destruct (dup_linear c xe kx) eqn:E; [|reflexivity].
    exfalso. apply Hne. now apply (dup_linear_terms ts kx Hdk Hdep). }
  assert (Hlk : List.length kx = List.length ts) by (symmetry; exact (F2_length _ _ _ Hdk)).
  assert (Hlk' : List.length ks' = List.length kx) by (symmetry; exact (F2_length _ _ _ Hto)).
  set (d0 := mk VNil 0 0).
  pose proof (F2_nth _ ts kx i (TKw []) d0 Hdk Hi) as Hxi.
  pose proof (F2_nth _ kx ks' i d0 d0 Hto ltac:(lia)) as Hti.
  assert (Hdi : (tdepth (nth i ts (TKw [])) <= max_depth)%nat) by (rewrite Forall_forall in Hdep; apply Hdep; apply nth_In; exact Hi).
  destruct (denotes_nf c xh max_depth _ p Hdi Hp) as [Np Cp].
  assert (Hxs : simple c (nth i kx d0) /\ coherent c xh (nth i kx d0)).
  { rewrite Forall_forall in Hs, Hco. split; [apply Hs|apply Hco]; apply nth_In; lia. }
  assert (Heq : equal c xe (nth i ks' d0) p = true).
  { rewrite (touched_equal c (nth i kx d0) p (nth i ks' d0) p Hti (or_introl eq_refl) (proj1 Hxs) (proj2 Hxs) Cp).
    exact (denotes_equal c xe xh _ _ _ Hdi Hxi Hp). }
  destruct (nth_split ks' d0 (n := i) ltac:(lia)) as (pre & post & Esp & Hlp).
  rewrite Esp in Hs', Hco', Hnd |- *. unfold mk.
  destruct (lookup_copy_finds_its_entry c xe xh pre (nth i ks' d0) post vs p a b None 0%Z Hs' Hco' Cp Hnd Heq) as [L1 L2].
  rewrite Hlp in L1. split; assumption.
Qed.
End LK.

(* ---- whole documents ---- *)
Theorem map_lookup_document c o m l tl : In c all_cfgs -> mapwf l None tl ->
  let ts := map (fun en => gerase (ekey en)) l in
  Forall (fun t => (tdepth t <= max_depth)%nat) ts -> Forall tsmall ts -> (Z.of_nat (List.length l) < 2 ^ 64)%Z ->
  ~ has_equal_terms c ts ->
  slice m 0 (List.length (maptext l None tl)) = maptext l None tl ->
  exists r s n, run_doc c o m (N.of_nat (List.length (maptext l None tl))) = Ret r s /\ r_value r = Some n /\ r_err r = EOk /\
    exists ks' vx, nval n = VMap ks' vx /\ Forall2 (denotes c) (map (fun en => gerase (eval_ en)) l) vx /\
      forall i p, (i < List.length l)%nat -> denotes c (nth i ts (TKw [])) p ->
        map_lookup c no_ext_equal n p = Some i /\ map_contains c no_ext_equal n p = true.
Proof.
  intros Hc Hw ts Hdep Hsm Hlen Hne Hsl. set (e := N.of_nat (List.length (maptext l None tl))).
  destruct (map_reads c Hc o builtin_handler m e l None tl Hw init_pst eq_refl ltac:(cbn [cur init_pst]; unfold e; lia) Hsl) as (f0 & Hf0).
  destruct (Hf0 f0 (le_n _)) as (kx & vx & s3 & Hdk & Hdv & Hc3 & Hok3 & Hr). fold ts in Hdk.
  assert (Hlx : List.length kx = List.length l).
  { apply F2_length in Hdk. unfold ts in Hdk. rewrite map_length in Hdk. lia. }
  assert (Hlt : List.length ts = List.length l) by (unfold ts; now rewrite map_length).
  pose proof (verdict c Hc ts kx Hdk Hdep Hsm ltac:(rewrite Hlx; exact Hlen)) as Hv.
  assert (Hfin : exists ks', Forall2 (touched c) kx ks' /\
            read_value c o builtin_handler no_ext_equal no_ext_hash (isort c) m e f0 init_pst = Ret (Some (mk (VMap ks' vx) (cur init_pst) (cur s3))) (leave s3)).
  { destruct (2 <=? List.length kx)%nat.
    - pose proof (has_duplicates_touched c (isort c) kx) as Ht.
      destruct (has_duplicates c no_ext_equal no_ext_hash (isort c) kx) as [dup ks'] eqn:Ehd. cbn [fst snd] in Hv, Ht.
      destruct dup; [exfalso; apply Hne; now apply Hv|]. exists ks'. split; [exact Ht|exact Hr].
    - exists kx. split; [|exact Hr]. clear. induction kx; constructor; [now left|assumption]. }
  destruct Hfin as (ks' & Hto & Hr').
  destruct (doc_ok c o m e f0 _ _ Hr' Hok3) as (r & Hrd & A & B & C).
  exists r, (leave s3), (mk (VMap ks' vx) (cur init_pst) (cur s3)). split; [apply (any_fuel_is_the_run c o m e f0 _ Hc Hrd); discriminate|].
  split; [exact A|]. split; [exact B|]. exists ks', vx. split; [reflexivity|]. split; [exact Hdv|].
  intros i p Hi Hp. apply (lookup_in_read_map c ts kx ks' vx _ _ Hdk Hdep Hne Hto i p ltac:(lia) Hp).
Qed.

(* ---- set membership on the set the reader returns ---- *)
Theorem set_membership_document c o m els tl : In c all_cfgs -> setwf els tl ->
  let ts := map (fun p => gerase (snd p)) els in
  Forall (fun t => (tdepth t <= max_depth)%nat) ts -> Forall tsmall ts -> (Z.of_nat (List.length els) < 2 ^ 64)%Z ->
  ~ has_equal_terms c ts ->
  slice m 0 (List.length (settext els tl)) = settext els tl ->
  exists r s n, run_doc c o m (N.of_nat (List.length (settext els tl))) = Ret r s /\ r_value r = Some n /\ r_err r = EOk /\
    forall t p, (tdepth t <= max_depth)%nat -> denotes c t p ->
      (set_contains c no_ext_equal n p = true <-> exists t', In t' ts /\ canon c t' = canon c t).
Proof.
  intros Hc Hw ts Hdep Hsm Hlen Hne Hsl. set (e := N.of_nat (List.length (settext els tl))).
  destruct (set_reads c Hc o builtin_handler m e els tl Hw init_pst eq_refl ltac:(cbn [cur init_pst]; unfold e; lia) Hsl) as (f0 & Hf0).
  destruct (Hf0 f0 (le_n _)) as (xs & s3 & Hden & Hc3 & Hd3 & Hok3 & Hr). fold ts in Hden.
  assert (Hlx : List.length xs = List.length els).
  { apply F2_length in Hden. unfold ts in Hden. rewrite map_length in Hden. lia. }
  pose proof (verdict c Hc ts xs Hden Hdep Hsm ltac:(rewrite Hlx; exact Hlen)) as Hv.
  assert (Hfin : exists xs', Forall2 (touched c) xs xs' /\
            read_value c o builtin_handler no_ext_equal no_ext_hash (isort c) m e f0 init_pst = Ret (Some (mk (VSet xs') (cur init_pst) (cur s3))) (leave s3)).
  { destruct (2 <=? List.length xs)%nat.
    - pose proof (has_duplicates_touched c (isort c) xs) as Ht.
      destruct (has_duplicates c no_ext_equal no_ext_hash (isort c) xs) as [dup xs'] eqn:Ehd. cbn [fst snd] in Hv, Ht.
      destruct dup; [exfalso; apply Hne; now apply Hv|]. exists xs'. split; [exact Ht|exact Hr].
    - exists xs. split; [|exact Hr]. clear. induction xs; constructor; [now left|assumption]. }
  destruct Hfin as (xs' & Hto & Hr').
  destruct (doc_ok c o m e f0 _ _ Hr' Hok3) as (r & Hrd & A & B & C).
  exists r, (leave s3), (mk (VSet xs') (cur init_pst) (cur s3)). split; [apply (any_fuel_is_the_run c o m e f0 _ Hc Hrd); discriminate|].
  split; [exact A|]. split; [exact B|].
  intros t p Hdt Hp. unfold set_contains, mk. cbn [nval].
  destruct (denotes_simple c ts xs Hden Hdep) as [Hs Hco].
  destruct (denotes_nf c no_ext_hash max_depth t p Hdt Hp) as [Np Cp].
  (* membership in the touched list = membership in the list as read *)
  assert (Hex : existsb (fun x => equal c no_ext_equal x p) xs' = existsb (fun x => equal c no_ext_equal x p) xs).
  { clear -Hto Hs Hco Cp. induction Hto as [|x x' t0 t0' Hx Hto IH]; [reflexivity|]. cbn [existsb].
    rewrite (IH (Forall_inv_tail Hs) (Forall_inv_tail Hco)). f_equal.
    exact (touched_equal c x p x' p Hx (or_introl eq_refl) (Forall_inv Hs) (Forall_inv Hco) Cp). }
  change (existsb (fun x => eqv c no_ext_equal x p) xs') with (existsb (fun x => equal c no_ext_equal x p) xs'). rewrite Hex.
  rewrite existsb_exists. split.
  - intros (x & Hin & He). apply In_nth with (d := mk VNil 0 0) in Hin. destruct Hin as (i & Hi & <-).
    assert (Hlt : (i < List.length ts)%nat) by (rewrite (F2_length _ _ _ Hden); exact Hi).
    pose proof (F2_nth _ ts xs i (TKw []) (mk VNil 0 0) Hden Hlt) as Hxi.
    exists (nth i ts (TKw [])). split; [now apply nth_In|].
    assert (Hdi : (tdepth (nth i ts (TKw [])) <= max_depth)%nat) by (rewrite Forall_forall in Hdep; apply Hdep; now apply nth_In).
    now apply (denotes_equal_iff c no_ext_equal no_ext_hash _ t _ p Hdi Hdt Hxi Hp).
  - intros (t' & Hin & Hcan). apply In_nth with (d := TKw []) in Hin. destruct Hin as (i & Hi & <-).
    pose proof (F2_nth _ ts xs i (TKw []) (mk VNil 0 0) Hden Hi) as Hxi.
    exists (nth i xs (mk VNil 0 0)). split; [apply nth_In; rewrite <- (F2_length _ _ _ Hden); exact Hi|].
    assert (Hdi : (tdepth (nth i ts (TKw [])) <= max_depth)%nat) by (rewrite Forall_forall in Hdep; apply Hdep; now apply nth_In).
    now apply (denotes_equal_iff c no_ext_equal no_ext_hash _ t _ p Hdi Hdt Hxi Hp).
Qed.
