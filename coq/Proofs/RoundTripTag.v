(* Proofs/RoundTripTag.v -- TAGGED ELEMENTS in the fragment of RoundTripGap.v (C14 and the handler clause of C13, at the
   level of whole documents): terms are integers, keywords, vectors, lists and tagged forms  #tag <trivia> <form>; in
   every gap stand trivia runs and discarded forms of the same grammar (so tags occur inside discards, discards inside
   tagged collections ...).  The run of the model reads every such document to a tree related to the term by [hden]:
   a tagged element whose tag is registered is replaced by what the handler returns for the ALREADY READ inner value
   (inner tags first), the handler is invoked exactly once per such element -- the log of invocations is exactly the
   post-order list of the non-discarded registered tagged elements -- an unregistered tag follows the default (generic
   tagged value / the inner value alone), without a registry every tag yields the generic tagged value, and nothing
   inside a discarded form ever reaches a handler. *)
From Coq Require Import ZArith NArith List Bool Lia String.
From Coq.Strings Require Import Byte.
From Verif Require Import Lanes Common Values Floats Scan ScanFacts Numbers Equality Tokens Reader Configs ByteSweep ScanProofs
     FidelityProofs NumProgress NumLiteral FlagProofs FuelMono TriviaProofs TriviaReader ReaderInv RoundTrip RoundTripWs RoundTripGap RoundTripErr.
Import ListNotations.
Local Open Scope N_scope.

Inductive hterm :=
| HKw (name : bytes)
| HInt (neg : bool) (digits : bytes)
| HSeq (vec : bool) (els : list (list hitem * hterm)) (tl : list hitem)
| HTag (tag : bytes) (ws : bytes) (x : hterm)
with hitem :=
| HWs (t : bytes)
| HDisc (ws : bytes) (d : hterm).

Fixpoint hsize (a : hterm) : nat :=
  match a with
  | HSeq _ els tl => S (fold_right (fun p acc => fold_right (fun it a2 => hisize it + a2) O (fst p) + hsize (snd p) + acc) O els
                        + fold_right (fun it a2 => hisize it + a2) O tl)%nat
  | HTag _ _ x => S (hsize x)
  | _ => 1%nat
  end
with hisize (it : hitem) : nat := match it with HWs _ => O | HDisc _ d => hsize d end.

Fixpoint hpr (a : hterm) : bytes :=
  match a with
  | HKw nm => ":"%byte :: nm
  | HInt neg ds => (if neg then ["-"%byte] else []) ++ ds
  | HSeq vec els tl => (if vec then "["%byte else "("%byte) ::
        List.concat (map (fun p => List.concat (map hipr (fst p)) ++ hpr (snd p)) els) ++ List.concat (map hipr tl) ++
        [if vec then "]"%byte else ")"%byte]
  | HTag tag ws x => "#"%byte :: tag ++ ws ++ hpr x
  end
with hipr (it : hitem) : bytes := match it with HWs t => t | HDisc ws d => "#"%byte :: "_"%byte :: ws ++ hpr d end.
Definition happr (g : list hitem) : bytes := List.concat (map hipr g).

Fixpoint halt (g : list hitem) : Prop :=
  match g with
  | [] => True
  | HWs _ :: r => match r with HWs _ :: _ => False | _ => halt r end
  | HDisc _ _ :: r => match r with HDisc _ _ :: _ => False | _ => halt r end
  end.
Fixpoint hends_ws (g : list hitem) : Prop :=
  match g with
  | [] => True
  | it :: r => match r with [] => match it with HDisc _ _ => False | HWs _ => True end | _ :: _ => hends_ws r end
  end.
Definition hstarts_ws (g : list hitem) : Prop := match g with HWs _ :: _ => True | _ => False end.
Definition htail_ok (g : list hitem) : Prop := match g with HDisc _ _ :: _ => False | _ => True end.

(* a tag name: an unqualified symbol that is not a reserved word and does not start with the discard marker *)
Definition tagok (tag : bytes) : Prop :=
  tag <> [] /\ forallb identb tag = true /\ List.hd "a"%byte tag <> "_"%byte /\
  bytes_eqb tag (lit "nil") = false /\ bytes_eqb tag (lit "true") = false /\ bytes_eqb tag (lit "false") = false.

Fixpoint hwf (a : hterm) : Prop :=
  match a with
  | HKw nm => nm <> [] /\ forallb identb nm = true
  | HInt _ ds => ds <> [] /\ forallb is_dig ds = true /\ (List.hd "0"%byte ds <> "0"%byte \/ ds = ["0"%byte])
  | HSeq _ els tl =>
      fold_right (fun it acc => hiwf it /\ acc) True tl /\ halt tl /\
      match els with [] => True | _ :: _ => htail_ok tl end /\
      fold_right (fun p acc => (fold_right (fun it a2 => hiwf it /\ a2) True (fst p) /\ halt (fst p) /\ hends_ws (fst p)) /\ hwf (snd p) /\ acc) True els /\
      match els with [] => True | _ :: t => fold_right (fun p acc => hstarts_ws (fst p) /\ acc) True t end
  | HTag tag ws x => tagok tag /\ trivia ws /\ ws <> [] /\ hwf x
  end
with hiwf (it : hitem) : Prop := match it with HWs t => trivia t /\ t <> [] | HDisc ws d => trivia ws /\ hwf d end.

Definition hgapwf (g : list hitem) : Prop := fold_right (fun it acc => hiwf it /\ acc) True g.
Definition hgapsize (g : list hitem) : nat := fold_right (fun it a2 => hisize it + a2)%nat O g.

Lemma tag_byte_facts :
  forallb (fun b => implb (identb b && negb (Byte.eqb b "_"))
                          (negb (tag_adjacent_ws (bz b)) && negb (Byte.eqb b "{") && negb (Byte.eqb b "#") && negb (Byte.eqb b "_") && negb (Byte.eqb b ":")))
          all_bytes = true /\
  forallb (fun b => implb (is_ws b || is_semi b) (is_delim b)) all_bytes = true.
Proof. vm_compute. split; reflexivity. Qed.

Lemma hpr_first a : hwf a -> exists b r, hpr a = b :: r /\ is_ws b = false /\ is_semi b = false /\ prefilter (bz b) = false.
Proof.
  intros Hw. destruct a as [nm|neg ds|vec els tl|tag ws x].
  - exact (pr_first (TKw nm) Hw).
  - exact (pr_first (TInt neg ds) Hw).
  - cbn [hpr]. eexists. eexists. split; [reflexivity|]. destruct vec; repeat split; reflexivity.
  - cbn [hpr]. eexists. eexists. split; [reflexivity|]. repeat split; reflexivity.
Qed.

Lemma hgap_size n g : (hgapsize g <= n)%nat -> Forall (fun it => (hisize it <= n)%nat) g.
Proof. unfold hgapsize. induction g as [|it r IH]; cbn [fold_right]; intros H; constructor; [lia|apply IH; lia]. Qed.

Lemma lvn_frame k v s : exists s', lvn k (Ret v s) = Ret v s' /\ cur s' = cur s /\ is_ok s' = is_ok s /\ depth s' = depth s /\
  discard s' = discard s /\ calls s' = calls s.
Proof.
  induction k as [|k (s' & E & H1 & H2 & H3 & H4 & H5)]; [exists s; repeat split|].
  cbn [lvn]. rewrite E. cbn [lv]. exists (leave s'). repeat split; assumption.
Qed.

Section TAG.
Variable c : cfg.
Hypothesis Hc : In c all_cfgs.
Variable o : opts.
Variable handler : Z -> node -> option node * option bytes.
Variable xe : Z -> option (Z -> Z -> bool).
Variable xh : Z -> option (Z -> Z).
Variable sort : list node -> list node.
Variable m : mem.
Variable e : N.

Notation RV := (read_value c o handler xe xh sort m e).
Notation RS := (read_seq c o handler xe xh sort m e).
Notation RE := (read_elems c o handler xe xh sort m e).
Notation RT := (read_tagged c o handler xe xh sort m e).
Notation follow := (ends_at m e).
Notation fstarts := (form_starts m e).

(* ---- what a tree must look like: the denotation of a term read with the discard flag d ---- *)
Definition same_but_range (n r : node) : Prop := nval n = nval r /\ nmeta n = nmeta r /\ nhash n = nhash r.

Inductive hden (d : bool) : hterm -> node -> list call -> Prop :=
| DHKw nm n : nval n = VKeyword None nm -> hden d (HKw nm) n []
| DHInt neg ds n : nval n = int_literal_value c neg ds -> hden d (HInt neg ds) n []
| DHSeq (vec : bool) els tl n xs cs : nval n = (if vec then VVector xs else VList xs) -> hden_l d els xs cs -> hden d (HSeq vec els tl) n cs
| DHPlain tag ws x n v cs :
    (has_registry o && negb d = false \/
     (lookup_tag o tag = None /\ (reader_mode o =? READER_UNWRAP)%Z = false /\ (reader_mode o =? READER_ERROR)%Z = false)) ->
    hden d x v cs -> nval n = VTagged tag v -> hden d (HTag tag ws x) n cs
| DHUnwrap tag ws x v cs :
    has_registry o && negb d = true -> lookup_tag o tag = None -> (reader_mode o =? READER_UNWRAP)%Z = true ->
    hden d x v cs -> hden d (HTag tag ws x) v cs
| DHCall tag ws x n v cs h r ms :
    has_registry o && negb d = true -> lookup_tag o tag = Some h -> handler h v = (Some r, ms) ->
    hden d x v cs -> same_but_range n r -> hden d (HTag tag ws x) n ({| call_tag := tag; call_arg := v |} :: cs)
with hden_l (d : bool) : list (list hitem * hterm) -> list node -> list call -> Prop :=
| DHNil : hden_l d [] [] []
| DHCons g x t y ys c1 c2 : hden d x y c1 -> hden_l d t ys c2 -> hden_l d ((g, x) :: t) (y :: ys) (c2 ++ c1).

Scheme hden_mind := Minimality for hden Sort Prop
  with hden_l_mind := Minimality for hden_l Sort Prop.
Combined Scheme hden_both_ind from hden_mind, hden_l_mind.

(* while discarding, no handler is reached *)
Lemma hden_discarding :
  (forall a n cs, hden true a n cs -> cs = []) /\ (forall l xs cs, hden_l true l xs cs -> cs = []).
Proof.
  apply hden_both_ind; intros; subst; try reflexivity; try assumption.
  all: try (cbn [negb] in *; rewrite andb_false_r in *; discriminate).
Qed.

(* the side condition under which every read of the term succeeds: each tag that will be looked up is either registered
   with a handler that accepts every value, or unregistered under a default other than "error" *)
Definition tag_total (tag : bytes) : Prop :=
  match lookup_tag o tag with
  | Some h => forall v, exists r ms, handler h v = (Some r, ms)
  | None => (reader_mode o =? READER_ERROR)%Z = false
  end.
Fixpoint hok (a : hterm) : Prop :=
  match a with
  | HSeq _ els tl => fold_right (fun p acc => fold_right (fun it a2 => hiok it /\ a2) True (fst p) /\ hok (snd p) /\ acc) True els /\
                     fold_right (fun it a2 => hiok it /\ a2) True tl
  | HTag tag _ x => tag_total tag /\ hok x
  | _ => True
  end
with hiok (it : hitem) : Prop := match it with HWs _ => True | HDisc _ d => hok d end.
Definition hgapok (g : list hitem) : Prop := fold_right (fun it a2 => hiok it /\ a2) True g.

(* the frame of a successful read *)
Definition post (s s' : pst) (q : N) (cs : list call) : Prop :=
  cur s' = q /\ is_ok s' = true /\ depth s' = depth s /\ discard s' = discard s /\ calls s' = cs ++ calls s.

Definition HIH (n : nat) : Prop := forall a, (hsize a <= n)%nat -> hwf a -> hok a -> forall s, is_ok s = true ->
  cur s + N.of_nat (List.length (hpr a)) <= e -> slice m (cur s) (List.length (hpr a)) = hpr a ->
  follow (cur s + N.of_nat (List.length (hpr a))) ->
  exists f0, forall f, (f0 <= f)%nat -> exists nd s' cs, RV f s = Ret (Some nd) s' /\ hden (discard s) a nd cs /\
    post s s' (cur s + N.of_nat (List.length (hpr a))) cs.

Definition skp (s : pst) (ws : bytes) : pst := match ws with [] => s | _ => with_cur s (cur s + N.of_nat (List.length ws)) end.
Lemma skp_facts s ws : cur (skp s ws) = cur s + N.of_nat (List.length ws) /\ is_ok (skp s ws) = is_ok s /\ depth (skp s ws) = depth s /\
  discard (skp s ws) = discard s /\ calls (skp s ws) = calls s.
Proof. destruct ws; cbn [skp List.length N.of_nat]; repeat split; try reflexivity. lia. Qed.
Lemma absorb' f s ws : trivia ws -> slice m (cur s) (List.length ws) = ws -> cur s + N.of_nat (List.length ws) <= e ->
  fstarts (cur s + N.of_nat (List.length ws)) -> RV (S f) s = RV (S f) (skp s ws).
Proof.
  intros Ht Hsl Hle Hfs. destruct ws as [|b r]; [reflexivity|]. unfold skp.
  apply (read_value_absorbs_trivia c o handler xe xh sort m e f s (b :: r)); try assumption. discriminate.
Qed.
Lemma hbyte_at p l b r : l = b :: r -> slice m p (List.length l) = l -> m p = b.
Proof. intros -> H. cbn [List.length] in H. rewrite slice_S in H. now injection H. Qed.
Lemma hbyte_hd p b r k : slice m p (S k) = b :: r -> m p = b /\ slice m (p + 1) k = r.
Proof. rewrite slice_S. intros H. injection H as H1 H2. split; assumption. Qed.

(* one discard:  #_ ws d  in front of anything; the log and the flag are as before *)
Lemma hdiscard_step n : HIH n -> forall ws d, (hsize d <= n)%nat -> trivia ws -> hwf d -> hok d -> forall s, is_ok s = true ->
  let txt := "#"%byte :: "_"%byte :: ws ++ hpr d in
  cur s + N.of_nat (List.length txt) <= e -> slice m (cur s) (List.length txt) = txt -> follow (cur s + N.of_nat (List.length txt)) ->
  exists f0 s1, cur s1 = cur s + N.of_nat (List.length txt) /\ is_ok s1 = true /\ depth s1 = depth s /\
    discard s1 = discard s /\ calls s1 = calls s /\
    forall f, (f0 <= f)%nat -> RV (S f) s = lv (RV f s1).
Proof.
  intros IH ws d Hsz Hws Hwd Hokd s Hok txt Hle Hsl Hfol. unfold txt in *. clear txt.
  cbn [List.length] in Hle, Hsl, Hfol |- *.
  apply hbyte_hd in Hsl. destruct Hsl as [Hb0 Hsl]. apply hbyte_hd in Hsl. destruct Hsl as [Hb1 Hsl].
  rewrite app_length in Hle, Hsl, Hfol |- *.
  rewrite slice_app in Hsl. apply app_eq_len in Hsl; [|now rewrite slice_length]. destruct Hsl as [Hsws Hsd].
  destruct (hpr_first d Hwd) as (bd & rd & Epd & Hd1 & Hd2 & _).
  assert (Hld : (0 < List.length (hpr d))%nat) by (rewrite Epd; cbn; lia).
  set (s' := with_start (enter s) (cur s)).
  set (sd := with_discard (with_cur s' (cur s + 2)) true).
  assert (Hcsd : cur sd = cur s + 2) by reflexivity.
  assert (Hoksd : is_ok sd = true) by exact Hok.
  destruct (skp_facts sd ws) as (Hc1 & Hok1 & Hd1' & Hdi1 & Hca1). set (sw := skp sd ws) in *.
  replace (cur s + 1 + 1) with (cur s + 2) in * by lia.
  assert (Hfs : fstarts (cur sd + N.of_nat (List.length ws))).
  { right. rewrite Hcsd. split; [lia|]. rewrite (hbyte_at _ (hpr d) bd rd Epd Hsd). split; assumption. }
  assert (Habs : forall f, RV (S f) sd = RV (S f) sw) by (intros f; apply absorb'; try assumption; rewrite Hcsd; try assumption; lia).
  destruct (IH d Hsz Hwd Hokd sw ltac:(now rewrite Hok1) ltac:(rewrite Hc1, Hcsd; lia) ltac:(rewrite Hc1, Hcsd; exact Hsd)
              ltac:(rewrite Hc1, Hcsd; replace (cur s + 2 + N.of_nat (List.length ws) + N.of_nat (List.length (hpr d)))
                       with (cur s + N.of_nat (S (S (List.length ws + List.length (hpr d))))) by lia; exact Hfol)) as (fd & Hfd).
  destruct (Hfd fd (le_n _)) as (nd & sdone & cs & Hrd & Hden & Hcd & Hokd' & Hdd & Hdid & Hcad).
  assert (Hcs : cs = []).
  { rewrite Hdi1 in Hden. change (discard sd) with true in Hden. exact (proj1 hden_discarding _ _ _ Hden). }
  subst cs. cbn [app] in Hcad.
  set (s1 := with_discard sdone (discard s')).
  exists (S fd), s1. split; [unfold s1; cbn [cur with_discard]; rewrite Hcd, Hc1, Hcsd; lia|]. split; [exact Hokd'|].
  split; [unfold s1; cbn [depth with_discard]; rewrite Hdd, Hd1'; reflexivity|].
  split; [reflexivity|]. split; [unfold s1; cbn [calls with_discard]; rewrite Hcad, Hca1; reflexivity|].
  intros f Hf. destruct f as [|f]; [lia|].
  assert (Hrun : RV (S f) sd = Ret (Some nd) sdone).
  { rewrite Habs. replace (S f) with (fd + (S f - fd))%nat by lia. apply read_value_fuel_irrelevant; [exact Hrd|discriminate]. }
  destruct hash_facts as (_ & _ & Hpf & Hcls). rewrite forallb_forall in Hcls. specialize (Hcls c Hc). apply andb_prop in Hcls as [Hh Hne].
  pose proof (not_earlier_spec c _ 5 ltac:(lia) Hne) as Hn.
  rewrite RV_S. unfold value_body. cbv zeta. cbn [cur with_start enter].
  replace (cur s <? e) with true by (symmetry; apply N.ltb_lt; lia). rewrite Hb0, Hpf. cbn [cur with_start enter]. rewrite Hb0.
  usecls Hn 0%nat; usecls Hn 1%nat; usecls Hn 2%nat; usecls Hn 3%nat; usecls Hn 4%nat. rewrite Hh.
  replace (cur s + 1 <? e) with true by (symmetry; apply N.ltb_lt; lia). rewrite Hb1.
  replace (is_byte "_" "{") with false by reflexivity. replace (is_byte "_" "#") with false by reflexivity.
  replace (is_byte "_" "_") with true by reflexivity. cbn [andb].
  fold s'. fold sd. rewrite Hrun. fold s1. replace (is_ok s1) with true by (symmetry; exact Hokd'). reflexivity.
Qed.

Lemma hends_ws_tail it r : hends_ws (it :: r) -> r <> [] -> hends_ws r.
Proof. destruct r as [|it2 r]; [congruence|]. intros H _. exact H. Qed.

(* a whole gap in front of a form start: the reader arrives behind it with the same flag and log *)
Lemma hgap_absorb n : HIH n -> forall g, Forall (fun it => (hisize it <= n)%nat) g -> hgapwf g -> hgapok g -> halt g ->
  forall s, is_ok s = true ->
  cur s + N.of_nat (List.length (happr g)) < e -> slice m (cur s) (List.length (happr g)) = happr g ->
  is_ws (m (cur s + N.of_nat (List.length (happr g)))) = false -> is_semi (m (cur s + N.of_nat (List.length (happr g)))) = false ->
  (hends_ws g \/ numdelim (bz (m (cur s + N.of_nat (List.length (happr g))))) = true) ->
  exists k f0 s2, cur s2 = cur s + N.of_nat (List.length (happr g)) /\ is_ok s2 = true /\ depth s2 = depth s /\
     discard s2 = discard s /\ calls s2 = calls s /\
     forall f, (f0 <= f)%nat -> RV (S f + k) s = lvn k (RV (S f) s2).
Proof.
  intros IH. induction g as [|it r IHr]; intros Hsz Hw Hgo Halt s Hok Hlt Hsl Hb1 Hb2 Hend.
  - exists O, O, s. cbn [happr map List.concat List.length N.of_nat]. split; [lia|]. split; [exact Hok|]. repeat (split; [reflexivity|]).
    intros f _. now rewrite Nat.add_0_r.
  - pose proof (Forall_inv Hsz) as Hszi. pose proof (Forall_inv_tail Hsz) as Hszr. cbn [hgapwf fold_right] in Hw. destruct Hw as [Hwi Hwr].
    cbn [hgapok fold_right] in Hgo. destruct Hgo as [Hoi Hor].
    assert (Etxt : happr (it :: r) = hipr it ++ happr r) by reflexivity.
    rewrite Etxt in Hlt, Hsl, Hb1, Hb2, Hend |- *. rewrite app_length in Hlt, Hsl, Hb1, Hb2, Hend |- *.
    rewrite slice_app in Hsl. apply app_eq_len in Hsl; [|now rewrite slice_length]. destruct Hsl as [Hsi Hsr].
    destruct it as [t|ws d].
    + cbn [hiwf] in Hwi. destruct Hwi as [Ht Htne]. cbn [hipr] in *.
      assert (Haltr : halt r /\ match r with HWs _ :: _ => False | _ => True end) by (cbn [halt] in Halt; destruct r as [|[|] ?]; tauto).
      destruct Haltr as [Haltr Hnws].
      destruct (skp_facts s t) as (Hc1 & Hok1 & Hd1 & Hdi1 & Hca1). set (s1 := skp s t) in *.
      assert (Hfs : fstarts (cur s + N.of_nat (List.length t))).
      { right. destruct r as [|[t2|ws2 d2] r'].
        - cbn [happr map List.concat List.length N.of_nat] in *. replace (cur s + N.of_nat (List.length t + 0)) with (cur s + N.of_nat (List.length t)) in * by lia.
          split; [lia|split; assumption].
        - contradiction.
        - assert (E2 : happr (HDisc ws2 d2 :: r') = "#"%byte :: ("_"%byte :: ws2 ++ hpr d2) ++ happr r') by reflexivity.
          split; [rewrite E2 in Hlt; cbn [List.length] in Hlt; lia|].
          rewrite (hbyte_at _ _ _ _ E2 Hsr). split; reflexivity. }
      assert (Habs : forall f, RV (S f) s = RV (S f) s1) by (intros f; apply absorb'; try assumption; lia).
      assert (Hend' : hends_ws r \/ numdelim (bz (m (cur s1 + N.of_nat (List.length (happr r))))) = true).
      { rewrite Hc1. replace (cur s + N.of_nat (List.length t) + N.of_nat (List.length (happr r))) with (cur s + N.of_nat (List.length t + List.length (happr r))) by lia.
        destruct Hend as [He|He]; [|now right]. left. destruct r as [|it2 r']; [exact I|]. apply (hends_ws_tail _ _ He). discriminate. }
      destruct (IHr Hszr Hwr Hor Haltr s1 ltac:(now rewrite Hok1) ltac:(rewrite Hc1; lia) ltac:(rewrite Hc1; exact Hsr)
                  ltac:(rewrite Hc1; replace (cur s + N.of_nat (List.length t) + N.of_nat (List.length (happr r))) with (cur s + N.of_nat (List.length t + List.length (happr r))) by lia; exact Hb1)
                  ltac:(rewrite Hc1; replace (cur s + N.of_nat (List.length t) + N.of_nat (List.length (happr r))) with (cur s + N.of_nat (List.length t + List.length (happr r))) by lia; exact Hb2)
                  Hend') as (k & f0 & s2 & Hc2 & Hok2 & Hd2 & Hdi2 & Hca2 & Hrun).
      exists k, f0, s2. split; [rewrite Hc2, Hc1; lia|]. split; [exact Hok2|]. split; [rewrite Hd2, Hd1; reflexivity|].
      split; [rewrite Hdi2, Hdi1; reflexivity|]. split; [rewrite Hca2, Hca1; reflexivity|].
      intros f Hf. replace (S f + k)%nat with (S (f + k)) by lia. rewrite Habs. replace (S (f + k)) with (S f + k)%nat by lia. now apply Hrun.
    + cbn [hiwf] in Hwi. destruct Hwi as [Hws Hwd]. cbn [hisize] in Hszi. cbn [hiok] in Hoi.
      assert (Haltr : halt r /\ match r with HDisc _ _ :: _ => False | _ => True end) by (cbn [halt] in Halt; destruct r as [|[|] ?]; tauto).
      destruct Haltr as [Haltr Hnd].
      assert (Eip : hipr (HDisc ws d) = "#"%byte :: "_"%byte :: ws ++ hpr d) by reflexivity.
      assert (Hfol : follow (cur s + N.of_nat (List.length (hipr (HDisc ws d))))).
      { right. destruct r as [|[t2|ws2 d2] r'].
        - cbn [happr map List.concat List.length N.of_nat] in *. rewrite Nat.add_0_r in *. split; [lia|].
          destruct Hend as [He|He]; [cbn [hends_ws] in He; contradiction|exact He].
        - cbn [hgapwf fold_right hiwf] in Hwr. destruct Hwr as [[Ht2 Hne2] _].
          destruct (trivia_numdelim t2 Ht2 Hne2) as (b & rr & Et2 & Hnb).
          assert (E2 : happr (HWs t2 :: r') = b :: rr ++ happr r') by (change (happr (HWs t2 :: r')) with (t2 ++ happr r'); now rewrite Et2).
          split; [rewrite E2 in Hlt; cbn [List.length] in Hlt; lia|]. now rewrite (hbyte_at _ _ _ _ E2 Hsr).
        - contradiction. }
      destruct (hdiscard_step n IH ws d Hszi Hws Hwd Hoi s Hok ltac:(rewrite <- Eip; lia) ltac:(rewrite <- Eip; exact Hsi) ltac:(rewrite <- Eip; exact Hfol))
        as (fd & s1 & Hc1 & Hok1 & Hd1 & Hdi1 & Hca1 & Hstep). rewrite <- Eip in Hc1.
      assert (Hend' : hends_ws r \/ numdelim (bz (m (cur s1 + N.of_nat (List.length (happr r))))) = true).
      { rewrite Hc1. replace (cur s + N.of_nat (List.length (hipr (HDisc ws d))) + N.of_nat (List.length (happr r)))
          with (cur s + N.of_nat (List.length (hipr (HDisc ws d)) + List.length (happr r))) by lia.
        destruct Hend as [He|He]; [|now right]. destruct r as [|it2 r']; [cbn [hends_ws] in He; contradiction|]. left. apply (hends_ws_tail _ _ He). discriminate. }
      destruct (IHr Hszr Hwr Hor Haltr s1 Hok1 ltac:(rewrite Hc1; lia) ltac:(rewrite Hc1; exact Hsr)
                  ltac:(rewrite Hc1; replace (cur s + N.of_nat (List.length (hipr (HDisc ws d))) + N.of_nat (List.length (happr r))) with (cur s + N.of_nat (List.length (hipr (HDisc ws d)) + List.length (happr r))) by lia; exact Hb1)
                  ltac:(rewrite Hc1; replace (cur s + N.of_nat (List.length (hipr (HDisc ws d))) + N.of_nat (List.length (happr r))) with (cur s + N.of_nat (List.length (hipr (HDisc ws d)) + List.length (happr r))) by lia; exact Hb2)
                  Hend') as (k & f0 & s2 & Hc2 & Hok2 & Hd2 & Hdi2 & Hca2 & Hrun).
      exists (S k), (Nat.max fd f0), s2. split; [rewrite Hc2, Hc1; lia|]. split; [exact Hok2|]. split; [rewrite Hd2, Hd1; reflexivity|].
      split; [rewrite Hdi2, Hdi1; reflexivity|]. split; [rewrite Hca2, Hca1; reflexivity|].
      intros f Hf. replace (S f + S k)%nat with (S (S f + k)) by lia. rewrite (Hstep (S f + k)%nat) by lia.
      rewrite (Hrun f) by lia. reflexivity.
Qed.

(* a gap, then a form *)
Lemma hgap_then_value n : HIH n -> forall g x, Forall (fun it => (hisize it <= n)%nat) g -> hgapwf g -> hgapok g -> halt g -> hends_ws g ->
  (hsize x <= n)%nat -> hwf x -> hok x -> forall s, is_ok s = true ->
  let txt := happr g ++ hpr x in
  cur s + N.of_nat (List.length txt) <= e -> slice m (cur s) (List.length txt) = txt -> follow (cur s + N.of_nat (List.length txt)) ->
  exists f0, forall f, (f0 <= f)%nat -> exists nx sx cs, RV f s = Ret (Some nx) sx /\ hden (discard s) x nx cs /\
    post s sx (cur s + N.of_nat (List.length txt)) cs.
Proof.
  intros IH g x Hszg Hwg Hgo Halt Hends Hszx Hwx Hox s Hok txt Hle Hsl Hfol. unfold txt in *. clear txt.
  rewrite app_length in Hle, Hsl, Hfol |- *. rewrite slice_app in Hsl. apply app_eq_len in Hsl; [|now rewrite slice_length].
  destruct Hsl as [Hsg Hsx]. destruct (hpr_first x Hwx) as (b & r & Epx & Hb1 & Hb2 & _).
  assert (Hlx : (0 < List.length (hpr x))%nat) by (rewrite Epx; cbn; lia).
  pose proof (hbyte_at _ _ _ _ Epx Hsx) as Hmb.
  destruct (hgap_absorb n IH g Hszg Hwg Hgo Halt s Hok ltac:(lia) Hsg ltac:(now rewrite Hmb) ltac:(now rewrite Hmb) (or_introl Hends))
    as (k & f0 & s2 & Hc2 & Hok2 & Hd2 & Hdi2 & Hca2 & Hrun).
  destruct (IH x Hszx Hwx Hox s2 Hok2 ltac:(rewrite Hc2; lia) ltac:(rewrite Hc2; exact Hsx)
              ltac:(rewrite Hc2; replace (cur s + N.of_nat (List.length (happr g)) + N.of_nat (List.length (hpr x)))
                       with (cur s + N.of_nat (List.length (happr g) + List.length (hpr x))) by lia; exact Hfol)) as (fx & Hfx).
  exists (S (Nat.max f0 fx) + k)%nat. intros f Hf.
  replace f with (S (f - k - 1) + k)%nat by lia. rewrite (Hrun (f - k - 1)%nat) by lia.
  destruct (Hfx (S (f - k - 1)) ltac:(lia)) as (nx & sx & cs & Hr & Hden & Hcx & Hokx & Hdx & Hdix & Hcax). rewrite Hr.
  destruct (lvn_frame k (Some nx) sx) as (s' & E & H1 & H2 & H3 & H4 & H5). rewrite E. exists nx, s', cs. split; [reflexivity|].
  split; [rewrite <- Hdi2; exact Hden|]. unfold post.
  split; [rewrite H1, Hcx, Hc2; lia|]. split; [now rewrite H2|]. split; [now rewrite H3, Hdx, Hd2|].
  split; [now rewrite H4, Hdix, Hdi2|]. now rewrite H5, Hcax, Hca2.
Qed.

(* a gap, then the closer *)
Lemma hgap_then_closer n cl : HIH n -> (cl = "]"%byte \/ cl = ")"%byte) -> forall g, Forall (fun it => (hisize it <= n)%nat) g -> hgapwf g -> hgapok g -> halt g ->
  forall s, is_ok s = true -> depth s <> 0 ->
  let txt := happr g ++ [cl] in
  cur s + N.of_nat (List.length txt) <= e -> slice m (cur s) (List.length txt) = txt ->
  exists f0, forall f, (f0 <= f)%nat -> exists s', RV f s = Ret None s' /\
    cur s' + 1 = cur s + N.of_nat (List.length txt) /\ is_ok s' = true /\ depth s' = depth s /\ m (cur s') = cl /\
    discard s' = discard s /\ calls s' = calls s.
Proof.
  intros IH Hcl g Hszg Hwg Hgo Halt s Hok Hdep txt Hle Hsl. unfold txt in *. clear txt.
  rewrite app_length in Hle, Hsl |- *. cbn [List.length] in Hle, Hsl |- *.
  rewrite slice_app in Hsl. apply app_eq_len in Hsl; [|now rewrite slice_length]. destruct Hsl as [Hsg Hsc].
  apply hbyte_hd in Hsc. destruct Hsc as [Hmb _].
  destruct byte_facts as (_ & _ & _ & _ & N2 & N3 & _).
  assert (Hcf : is_ws cl = false /\ is_semi cl = false /\ numdelim (bz cl) = true) by (destruct Hcl as [-> | ->]; repeat split; assumption).
  destruct Hcf as (Hw1 & Hw2 & Hw3).
  destruct (hgap_absorb n IH g Hszg Hwg Hgo Halt s Hok ltac:(lia) Hsg ltac:(now rewrite Hmb) ltac:(now rewrite Hmb) ltac:(right; now rewrite Hmb))
    as (k & f0 & s2 & Hc2 & Hok2 & Hd2 & Hdi2 & Hca2 & Hrun).
  exists (S f0 + k)%nat. intros f Hf. replace f with (S (f - k - 1) + k)%nat by lia. rewrite (Hrun (f - k - 1)%nat) by lia.
  rewrite (rv_closer_full c Hc o handler xe xh sort m e (f - k - 1) s2 cl Hok2 ltac:(now rewrite Hd2) ltac:(rewrite Hc2; lia) ltac:(now rewrite Hc2) Hcl).
  destruct (lvn_frame k None (leave (with_start (enter s2) (cur s2)))) as (s3 & E & H1 & H2 & H3 & H4 & H5). rewrite E. exists s3. split; [reflexivity|].
  cbn [cur is_ok err depth discard calls leave with_start enter] in H1, H2, H3, H4, H5.
  split; [rewrite H1, Hc2; lia|]. split; [rewrite H2; exact Hok2|]. split; [now rewrite H3, Hd2|]. split; [now rewrite H1, Hc2|].
  split; [now rewrite H4, Hdi2|]. now rewrite H5, Hca2.
Qed.

Definition hgtail (cl : byte) (l : list (list hitem * hterm)) (tl : list hitem) : bytes :=
  List.concat (map (fun p => happr (fst p) ++ hpr (snd p)) l) ++ happr tl ++ [cl].
Definition helwf (p : list hitem * hterm) : Prop := (hgapwf (fst p) /\ halt (fst p) /\ hends_ws (fst p)) /\ hwf (snd p).
Definition helok (p : list hitem * hterm) : Prop := hgapok (fst p) /\ hok (snd p).
Definition helsz (n : nat) (p : list hitem * hterm) : Prop := Forall (fun it => (hisize it <= n)%nat) (fst p) /\ (hsize (snd p) <= n)%nat.

Lemma hgap_ws_first g : hgapwf g -> hstarts_ws g -> exists b r, happr g = b :: r /\ numdelim (bz b) = true.
Proof.
  destruct g as [|[t|ws d] r]; cbn [hstarts_ws]; try contradiction. intros [[Ht Hne] _] _.
  destruct (trivia_numdelim t Ht Hne) as (b & rr & -> & Hn). exists b, (rr ++ happr r). split; [reflexivity|exact Hn].
Qed.

Lemma hgtail_first cl l tl : (cl = "]"%byte \/ cl = ")"%byte) -> hgapwf tl -> htail_ok tl ->
  Forall helwf l -> Forall (fun p => hstarts_ws (fst p)) l ->
  exists b r, hgtail cl l tl = b :: r /\ numdelim (bz b) = true.
Proof.
  intros Hcl Htl Hto Hw Hs. destruct byte_facts as (_ & _ & _ & _ & N2 & N3 & _). unfold hgtail. destruct l as [|[g x] t].
  - cbn [map List.concat app]. destruct tl as [|[t0|ws d] r]; [| |contradiction].
    + cbn [happr map List.concat app]. eexists. eexists. split; [reflexivity|]. destruct Hcl as [-> | ->]; assumption.
    + destruct (hgap_ws_first (HWs t0 :: r) Htl I) as (b & rr & E & Hn). rewrite E. eexists. eexists. split; [reflexivity|exact Hn].
  - destruct (Forall_inv Hw) as [[Hg _] _]. pose proof (Forall_inv Hs) as Hsg. cbn [fst snd] in *.
    destruct (hgap_ws_first g Hg Hsg) as (b & rr & E & Hn). cbn [map List.concat fst snd]. rewrite E. eexists. eexists. split; [reflexivity|exact Hn].
Qed.

(* the element loop on  g1 x1 ... gk xk tl <closer>: the calls of later elements stand in front *)
Lemma helems_loop n cl : HIH n -> (cl = "]"%byte \/ cl = ")"%byte) -> forall tl, Forall (fun it => (hisize it <= n)%nat) tl -> hgapwf tl -> hgapok tl -> halt tl ->
  forall l, Forall (helsz n) l -> Forall helwf l -> Forall helok l -> Forall (fun p => hstarts_ws (fst p)) l -> (l <> [] -> htail_ok tl) ->
  forall s acc, is_ok s = true -> depth s <> 0 ->
  cur s + N.of_nat (List.length (hgtail cl l tl)) <= e -> slice m (cur s) (List.length (hgtail cl l tl)) = hgtail cl l tl ->
  exists f0, forall f, (f0 <= f)%nat -> exists xs s' cs,
    RE f s acc = Ret (Some (rev acc ++ xs)) s' /\ hden_l (discard s) l xs cs /\
    cur s' + 1 = cur s + N.of_nat (List.length (hgtail cl l tl)) /\ is_ok s' = true /\ depth s' = depth s /\ m (cur s') = cl /\
    discard s' = discard s /\ calls s' = cs ++ calls s.
Proof.
  intros IH Hcl tl Hsztl Hwtl Hoktl Halttl. induction l as [|[g x] t IHl]; intros Hsz Hw Hko Hst Hto s acc Hok Hd Hle Hsl.
  - unfold hgtail in *. cbn [map List.concat app] in *.
    destruct (hgap_then_closer n cl IH Hcl tl Hsztl Hwtl Hoktl Halttl s Hok Hd Hle Hsl) as (f0 & Hf0).
    exists (S f0). intros f Hf. destruct f as [|f]; [lia|]. destruct (Hf0 f ltac:(lia)) as (s' & Hr & Hc' & Hok' & Hd' & Hm' & Hdi' & Hca').
    rewrite RE_S. unfold elems_body. rewrite Hr. exists [], s', []. rewrite app_nil_r. split; [reflexivity|]. split; [constructor|].
    repeat split; assumption.
  - destruct (Forall_inv Hsz) as [Hszg Hszx]. pose proof (Forall_inv_tail Hsz) as Hszt.
    destruct (Forall_inv Hw) as [[Hwg [Haltg Hendg]] Hwx]. pose proof (Forall_inv_tail Hw) as Hwt.
    destruct (Forall_inv Hko) as [Hog Hox]. pose proof (Forall_inv_tail Hko) as Hot.
    pose proof (Forall_inv Hst) as Hsg. pose proof (Forall_inv_tail Hst) as Hstt. cbn [fst snd] in *.
    assert (Egt : hgtail cl ((g, x) :: t) tl = (happr g ++ hpr x) ++ hgtail cl t tl).
    { unfold hgtail. cbn [map List.concat fst snd]. rewrite <- !app_assoc. reflexivity. }
    rewrite Egt in Hle, Hsl |- *. rewrite app_length in Hle, Hsl |- *.
    rewrite slice_app in Hsl. apply app_eq_len in Hsl; [|now rewrite slice_length]. destruct Hsl as [Hgx Ht].
    set (q := cur s + N.of_nat (List.length (happr g ++ hpr x))) in *.
    assert (Htok : htail_ok tl) by (apply Hto; discriminate).
    destruct (hgtail_first cl t tl Hcl Hwtl Htok Hwt Hstt) as (b2 & r2 & Eg2 & Hnd2).
    assert (Hlen2 : (0 < List.length (hgtail cl t tl))%nat) by (rewrite Eg2; cbn; lia).
    pose proof (hbyte_at q _ _ _ Eg2 Ht) as Hmq.
    destruct (hgap_then_value n IH g x Hszg Hwg Hog Haltg Hendg Hszx Hwx Hox s Hok ltac:(fold q; lia) Hgx
                ltac:(fold q; apply (follow_byte m e q b2); [lia|exact Hmq|exact Hnd2])) as (fv & Hfv).
    destruct (Hfv fv (le_n _)) as (nx & sx & c1 & Hrx & Hdx & Hcx & Hokx & Hdpx & Hdix & Hcax). fold q in Hcx.
    destruct (IHl Hszt Hwt Hot Hstt ltac:(intros _; exact Htok) sx (nx :: acc) Hokx ltac:(now rewrite Hdpx) ltac:(rewrite Hcx; unfold q; lia)
                  ltac:(rewrite Hcx; exact Ht)) as (ft & Hft).
    exists (S (Nat.max fv ft)). intros f Hf. destruct f as [|f]; [lia|]. rewrite RE_S. unfold elems_body.
    assert (Hrx' : RV f s = Ret (Some nx) sx).
    { replace f with (fv + (f - fv))%nat by lia. apply read_value_fuel_irrelevant; [exact Hrx|discriminate]. }
    rewrite Hrx'. destruct (Hft f ltac:(lia)) as (xs & s' & c2 & Hre & Hden & Hc' & Hok' & Hd' & Hm' & Hdi' & Hca').
    exists (nx :: xs), s', (c2 ++ c1). split.
    { rewrite Hre. cbn [rev]. rewrite <- app_assoc. reflexivity. }
    split; [constructor; [exact Hdx|rewrite <- Hdix; exact Hden]|].
    split; [rewrite Hc', Hcx; unfold q; lia|]. split; [exact Hok'|]. split; [rewrite Hd', Hdpx; reflexivity|]. split; [exact Hm'|].
    split; [rewrite Hdi', Hdix; reflexivity|]. rewrite Hca', Hcax, app_assoc. reflexivity.
Qed.

Lemma hsizes_els n (els : list (list hitem * hterm)) :
  (fold_right (fun p acc => fold_right (fun it a2 => hisize it + a2) O (fst p) + hsize (snd p) + acc) O els <= n)%nat -> Forall (helsz n) els.
Proof.
  induction els as [|p t IH]; cbn [fold_right]; intros H; constructor.
  - split; [apply hgap_size; unfold hgapsize; lia|lia].
  - apply IH. lia.
Qed.
Lemma helwf_Forall (els : list (list hitem * hterm)) :
  fold_right (fun p acc => (fold_right (fun it a2 => hiwf it /\ a2) True (fst p) /\ halt (fst p) /\ hends_ws (fst p)) /\ hwf (snd p) /\ acc) True els ->
  Forall helwf els.
Proof. induction els as [|p t IH]; cbn [fold_right]; intros H; constructor; [unfold helwf, hgapwf; tauto|apply IH; tauto]. Qed.
Lemma helok_Forall (els : list (list hitem * hterm)) :
  fold_right (fun p acc => fold_right (fun it a2 => hiok it /\ a2) True (fst p) /\ hok (snd p) /\ acc) True els -> Forall helok els.
Proof. induction els as [|p t IH]; cbn [fold_right]; intros H; constructor; [unfold helok, hgapok; tauto|apply IH; tauto]. Qed.
Lemma hstarts_Forall (t : list (list hitem * hterm)) : fold_right (fun p acc => hstarts_ws (fst p) /\ acc) True t -> Forall (fun p => hstarts_ws (fst p)) t.
Proof. induction t as [|p t IH]; cbn [fold_right]; intros H; constructor; [tauto|apply IH; tauto]. Qed.

(* the sequence reader behind the opener *)
Lemma hseq_reads n (vec : bool) : HIH n -> forall els tl, (hsize (HSeq vec els tl) <= S n)%nat -> hwf (HSeq vec els tl) -> hok (HSeq vec els tl) ->
  forall s, is_ok s = true ->
  let K := if vec then KVector else KList in let cl := closer_of K in
  let body := hgtail cl els tl in
  cur s + 1 + N.of_nat (List.length body) <= e -> slice m (cur s + 1) (List.length body) = body ->
  exists f0, forall f, (f0 <= f)%nat -> exists xs s' cs,
    RS f K 1 s = Ret (Some (mk (match K with KVector => VVector xs | _ => VList xs end) (cur s) (cur s'))) s' /\
    hden_l (discard s) els xs cs /\ cur s' = cur s + 1 + N.of_nat (List.length body) /\
    is_ok s' = true /\ depth s' = depth s /\ discard s' = discard s /\ calls s' = cs ++ calls s.
Proof.
  intros IH els tl Hsz Hw Hko s Hok K cl body Hle Hsl. cbn [hwf] in Hw. destruct Hw as (Hwtl & Halttl & Htok & Hwels & Hsts).
  cbn [hok] in Hko. destruct Hko as [Hoels Hotl].
  assert (Hcl : cl = "]"%byte \/ cl = ")"%byte) by (unfold cl, K; destruct vec; [left|right]; reflexivity).
  cbn [hsize] in Hsz.
  assert (Hszels : Forall (helsz n) els) by (apply hsizes_els; lia).
  assert (Hsztl : Forall (fun it => (hisize it <= n)%nat) tl) by (apply hgap_size; unfold hgapsize; lia).
  pose proof (helwf_Forall els Hwels) as Hwf. pose proof (helok_Forall els Hoels) as Hof.
  set (s1 := with_depth (with_cur s (cur s + 1)) (depth s + 1)).
  assert (Hok1 : is_ok s1 = true) by exact Hok.
  assert (Hd1 : depth s1 <> 0) by (unfold s1; cbn; lia).
  assert (Hc1 : cur s1 = cur s + 1) by reflexivity.
  assert (Hel : exists f0, forall f, (f0 <= f)%nat -> exists xs s2 cs,
            RE f s1 [] = Ret (Some xs) s2 /\ hden_l (discard s) els xs cs /\
            cur s2 + 1 = cur s + 1 + N.of_nat (List.length body) /\ is_ok s2 = true /\ depth s2 = depth s1 /\ m (cur s2) = cl /\
            discard s2 = discard s /\ calls s2 = cs ++ calls s).
  { destruct els as [|[g x] t].
    - destruct (helems_loop n cl IH Hcl tl Hsztl Hwtl Hotl Halttl [] (Forall_nil _) (Forall_nil _) (Forall_nil _) (Forall_nil _) ltac:(congruence) s1 [] Hok1 Hd1
                  ltac:(rewrite Hc1; exact Hle) ltac:(rewrite Hc1; exact Hsl)) as (f0 & Hf0).
      exists f0. intros f Hf. destruct (Hf0 f Hf) as (xs & s2 & cs & H1 & H2 & H3 & H4 & H5 & H6 & H7 & H8). exists xs, s2, cs.
      cbn [rev app] in H1. rewrite Hc1 in H3. repeat split; assumption.
    - destruct (Forall_inv Hszels) as [Hszg Hszx]. pose proof (Forall_inv_tail Hszels) as Hszt.
      destruct (Forall_inv Hwf) as [[Hwg [Haltg Hendg]] Hwx]. pose proof (Forall_inv_tail Hwf) as Hwt.
      destruct (Forall_inv Hof) as [Hog Hox]. pose proof (Forall_inv_tail Hof) as Hot. cbn [fst snd] in *.
      pose proof (hstarts_Forall t Hsts) as Hstt.
      assert (Egt : hgtail cl ((g, x) :: t) tl = (happr g ++ hpr x) ++ hgtail cl t tl).
      { unfold hgtail. cbn [map List.concat fst snd]. rewrite <- !app_assoc. reflexivity. }
      unfold body in *. rewrite Egt in Hle, Hsl |- *. rewrite app_length in Hle, Hsl |- *.
      rewrite slice_app in Hsl. apply app_eq_len in Hsl; [|now rewrite slice_length]. destruct Hsl as [Hgx Ht].
      set (q := cur s + 1 + N.of_nat (List.length (happr g ++ hpr x))) in *.
      destruct (hgtail_first cl t tl Hcl Hwtl Htok Hwt Hstt) as (b2 & r2 & Eg2 & Hnd2).
      assert (Hlen2 : (0 < List.length (hgtail cl t tl))%nat) by (rewrite Eg2; cbn; lia).
      pose proof (hbyte_at q _ _ _ Eg2 Ht) as Hmq.
      destruct (hgap_then_value n IH g x Hszg Hwg Hog Haltg Hendg Hszx Hwx Hox s1 Hok1 ltac:(rewrite Hc1; fold q; lia) ltac:(rewrite Hc1; exact Hgx)
                  ltac:(rewrite Hc1; fold q; apply (follow_byte m e q b2); [lia|exact Hmq|exact Hnd2])) as (fv & Hfv).
      destruct (Hfv fv (le_n _)) as (nx & sx & c1 & Hrx & Hdx & Hcx & Hokx & Hdpx & Hdix & Hcax). rewrite Hc1 in Hcx. fold q in Hcx.
      destruct (helems_loop n cl IH Hcl tl Hsztl Hwtl Hotl Halttl t Hszt Hwt Hot Hstt ltac:(intros _; exact Htok) sx [nx] Hokx ltac:(now rewrite Hdpx)
                  ltac:(rewrite Hcx; unfold q; lia) ltac:(rewrite Hcx; exact Ht)) as (ft & Hft).
      exists (S (Nat.max fv ft)). intros f Hf. destruct f as [|f]; [lia|]. rewrite RE_S. unfold elems_body.
      assert (Hrx' : RV f s1 = Ret (Some nx) sx).
      { replace f with (fv + (f - fv))%nat by lia. apply read_value_fuel_irrelevant; [exact Hrx|discriminate]. }
      rewrite Hrx'. destruct (Hft f ltac:(lia)) as (xs & s3 & c2 & H1 & H2 & H3 & H4 & H5 & H6 & H7 & H8).
      exists (nx :: xs), s3, (c2 ++ c1). cbn [rev app] in H1. split; [exact H1|].
      split; [constructor; [exact Hdx|change (discard s) with (discard s1); rewrite <- Hdix; exact H2]|].
      split; [rewrite H3, Hcx; unfold q; lia|]. split; [exact H4|]. split; [rewrite H5, Hdpx; reflexivity|]. split; [exact H6|].
      split; [rewrite H7, Hdix; reflexivity|]. rewrite H8, Hcax, app_assoc. reflexivity. }
  destruct Hel as (f0 & Hf0). exists (S f0). intros f Hf. destruct f as [|f]; [lia|].
  destruct (Hf0 f ltac:(lia)) as (xs & s2 & cs & H1 & H2 & H3 & H4 & H5 & H6 & H7 & H8).
  rewrite RS_S. unfold seq_body. fold s1. rewrite H1, H4. cbn [negb].
  replace (e <=? cur s2) with false by (symmetry; apply N.leb_gt; lia).
  rewrite H6. fold cl. rewrite (Byte.byte_dec_lb eq_refl). cbn [negb].
  set (s3 := with_depth (with_cur s2 (cur s2 + 1)) (depth s2 - 1)).
  exists xs, s3, cs.
  assert (Hc3 : cur s3 = cur s + 1 + N.of_nat (List.length body)) by (unfold s3; cbn; lia).
  assert (Hd3 : depth s3 = depth s) by (unfold s3; cbn; rewrite H5; unfold s1; cbn; lia).
  unfold K. destruct vec; (split; [reflexivity|]); repeat split; assumption.
Qed.

Lemma RT_S f s : RT (S f) s = tagged_body o handler m e (fun s1 => RV f s1) s.
Proof. reflexivity. Qed.

Lemma same_but_range_set r a b : same_but_range (set_range r a b) r.
Proof. destruct r. repeat split; reflexivity. Qed.

(* a tagged element:  #tag ws x  *)
Lemma htag_reads n : HIH n -> forall tag ws x, (hsize x <= n)%nat -> tagok tag -> trivia ws -> ws <> [] -> hwf x -> hok x -> tag_total tag ->
  forall s, is_ok s = true ->
  let txt := "#"%byte :: tag ++ ws ++ hpr x in
  cur s + N.of_nat (List.length txt) <= e -> slice m (cur s) (List.length txt) = txt -> follow (cur s + N.of_nat (List.length txt)) ->
  exists f0, forall f, (f0 <= f)%nat -> exists nd s' cs, RV f s = Ret (Some nd) s' /\ hden (discard s) (HTag tag ws x) nd cs /\
    post s s' (cur s + N.of_nat (List.length txt)) cs.
Proof.
  intros IH tag ws x Hszx (Hne & Hid & Hhd & Hn1 & Hn2 & Hn3) Hws Hwsne Hwx Hox Htot s Hok txt Hle Hsl Hfol. unfold txt in *. clear txt.
  cbn [List.length] in Hle, Hsl, Hfol |- *. apply hbyte_hd in Hsl. destruct Hsl as [Hb0 Hsl].
  rewrite !app_length in Hle, Hsl, Hfol |- *.
  rewrite slice_app in Hsl. apply app_eq_len in Hsl; [|now rewrite slice_length]. destruct Hsl as [Htg Hsl].
  rewrite slice_app in Hsl. apply app_eq_len in Hsl; [|now rewrite slice_length]. destruct Hsl as [Hwsl Hxsl].
  destruct tag as [|b0 tr]; [congruence|]. cbn [List.hd] in Hhd.
  assert (Hb1 : m (cur s + 1) = b0) by (apply (hbyte_at _ (b0 :: tr) b0 tr eq_refl Htg)).
  assert (Hidb : identb b0 = true) by (cbn [forallb] in Hid; now apply andb_prop in Hid as [? _]).
  destruct tag_byte_facts as [Htb Hdl].
  pose proof (byte_sweep _ Htb b0) as Hs0. cbv beta in Hs0. rewrite Hidb in Hs0.
  assert (Hnu : Byte.eqb b0 "_" = false) by (destruct (Byte.eqb b0 "_") eqn:E; [apply Byte.byte_dec_bl in E; congruence|reflexivity]).
  rewrite Hnu in Hs0. cbn [negb andb implb] in Hs0.
  apply andb_prop in Hs0 as [Hs0 T5]. apply andb_prop in Hs0 as [Hs0 T4]. apply andb_prop in Hs0 as [Hs0 T3]. apply andb_prop in Hs0 as [T1 T2].
  apply negb_true_iff in T1, T2, T3, T5.
  destruct (trivia_first ws Hws Hwsne) as (w0 & wr & Ews & Hw0).
  assert (Hdw : is_delim w0 = true) by (pose proof (byte_sweep _ Hdl w0) as H; cbv beta in H; now rewrite Hw0 in H).
  set (ltag := List.length (b0 :: tr)) in *.
  assert (Hmw : m (cur s + 1 + N.of_nat ltag) = w0) by (apply (hbyte_at _ ws w0 wr Ews Hwsl)).
  assert (Hlw : (0 < List.length ws)%nat) by (rewrite Ews; cbn; lia).
  destruct (hpr_first x Hwx) as (bx & rx & Epx & Hx1 & Hx2 & _).
  assert (Hlx : (0 < List.length (hpr x))%nat) by (rewrite Epx; cbn; lia).
  set (s0 := with_start (enter s) (cur s)).
  set (s1 := with_cur s0 (cur s0 + 1)).
  set (s2 := with_cur s1 (cur s1 + N.of_nat ltag)).
  set (so := with_depth s2 (depth s0 + 1)).
  assert (Hcso : cur so = cur s + 1 + N.of_nat ltag) by reflexivity.
  assert (Hst : stands m e (cur s1) (b0 :: tr)).
  { change (cur s1) with (cur s + 1). split; [fold ltag; lia|]. split; [exact Htg|]. right. fold ltag. now rewrite Hmw. }
  destruct (skp_facts so ws) as (Hc1 & Hok1 & Hd1 & Hdi1 & Hca1). set (sw := skp so ws) in *.
  assert (Hfs : fstarts (cur so + N.of_nat (List.length ws))).
  { right. rewrite Hcso. split; [lia|]. rewrite (hbyte_at _ (hpr x) bx rx Epx Hxsl). split; assumption. }
  assert (Habs : forall f, RV (S f) so = RV (S f) sw) by (intros f; apply absorb'; try assumption; rewrite Hcso; try assumption; lia).
  destruct (IH x Hszx Hwx Hox sw ltac:(rewrite Hok1; exact Hok) ltac:(rewrite Hc1, Hcso; lia) ltac:(rewrite Hc1, Hcso; exact Hxsl)
              ltac:(rewrite Hc1, Hcso; replace (cur s + 1 + N.of_nat ltag + N.of_nat (List.length ws) + N.of_nat (List.length (hpr x)))
                       with (cur s + N.of_nat (S (ltag + (List.length ws + List.length (hpr x))))) by lia; exact Hfol)) as (fx & Hfx).
  destruct (Hfx fx (le_n _)) as (v & s3 & cs1 & Hrv & Hdv & Hc3 & Hok3 & Hd3 & Hdi3 & Hca3).
  rewrite Hc1, Hcso in Hc3. rewrite Hd1 in Hd3. rewrite Hdi1 in Hdi3, Hdv. rewrite Hca1 in Hca3.
  change (discard so) with (discard s) in Hdi3, Hdv. change (calls so) with (calls s) in Hca3. change (depth so) with (depth s + 1) in Hd3.
  exists (S (S (S fx))). intros f Hf. destruct f as [|[|[|f]]]; try lia.
  assert (Hrun : RV (S f) so = Ret (Some v) s3).
  { rewrite Habs. replace (S f) with (fx + (S f - fx))%nat by lia. apply read_value_fuel_irrelevant; [exact Hrv|discriminate]. }
  destruct hash_facts as (_ & _ & Hpf & Hcls). rewrite forallb_forall in Hcls. specialize (Hcls c Hc). apply andb_prop in Hcls as [Hh Hnee].
  pose proof (not_earlier_spec c _ 5 ltac:(lia) Hnee) as Hn.
  rewrite RV_S. unfold value_body. cbv zeta. cbn [cur with_start enter].
  replace (cur s <? e) with true by (symmetry; apply N.ltb_lt; lia). rewrite Hb0, Hpf. cbn [cur with_start enter]. rewrite Hb0.
  usecls Hn 0%nat; usecls Hn 1%nat; usecls Hn 2%nat; usecls Hn 3%nat; usecls Hn 4%nat. rewrite Hh.
  replace (cur s + 1 <? e) with true by (symmetry; apply N.ltb_lt; lia). rewrite Hb1.
  change (is_byte b0 "{") with (Byte.eqb b0 "{"%byte). change (is_byte b0 "#") with (Byte.eqb b0 "#"%byte).
  change (is_byte b0 "_") with (Byte.eqb b0 "_"%byte). change (is_byte b0 ":") with (Byte.eqb b0 ":"%byte).
  rewrite T2, T3, Hnu, T5. cbn [andb]. rewrite andb_false_r. fold s0.
  rewrite RT_S. unfold tagged_body. cbv zeta. fold s1.
  replace (e <=? cur s1) with false by (symmetry; apply N.leb_gt; change (cur s1) with (cur s + 1); lia).
  change (m (cur s1)) with (m (cur s + 1)). rewrite Hb1, T1.
  rewrite (read_symbol_plain m e s1 (b0 :: tr) Hne Hid Hst Hn1 Hn2 Hn3). cbn [nval mk]. fold ltag. fold s2.
  replace (slice m (cur s1) (N.to_nat (cur s2 - cur s1))) with (b0 :: tr)
    by (change (cur s2) with (cur s1 + N.of_nat ltag); replace (N.to_nat (cur s1 + N.of_nat ltag - cur s1)) with ltag by lia; symmetry; exact Htg).
  fold so. rewrite Hrun.
  set (s4 := with_depth s3 (depth s0)).
  assert (Hdi4 : discard s4 = discard s) by exact Hdi3.
  rewrite Hdi4.
  set (q := cur s + N.of_nat (S (ltag + (List.length ws + List.length (hpr x))))).
  assert (Hq : cur s3 = q) by (rewrite Hc3; unfold q; lia).
  destruct (has_registry o && negb (discard s)) eqn:Hreg.
  - unfold tag_total in Htot. destruct (lookup_tag o (b0 :: tr)) as [h|] eqn:Hlk.
    + destruct (Htot v) as (r & ms & Hhv). rewrite Hhv.
      eexists. eexists. exists ({| call_tag := b0 :: tr; call_arg := v |} :: cs1). split; [reflexivity|]. split.
      * eapply DHCall; try eassumption. apply same_but_range_set.
      * unfold post. cbn [cur is_ok err depth discard calls leave with_call with_depth]. repeat split; try assumption.
        change (calls s4) with (calls s3). rewrite Hca3. reflexivity.
    + destruct (reader_mode o =? READER_UNWRAP)%Z eqn:Hun.
      * eexists. eexists. exists cs1. split; [reflexivity|]. split; [now apply DHUnwrap|].
        unfold post. cbn [cur is_ok err depth discard calls leave with_depth]. repeat split; assumption.
      * rewrite Htot. eexists. eexists. exists cs1. split; [reflexivity|]. split.
        { eapply DHPlain; [right; repeat split; assumption|exact Hdv|reflexivity]. }
        unfold post. cbn [cur is_ok err depth discard calls leave with_depth]. repeat split; assumption.
  - eexists. eexists. exists cs1. split; [reflexivity|]. split.
    { eapply DHPlain; [left; exact Hreg|exact Hdv|reflexivity]. }
    unfold post. cbn [cur is_ok err depth discard calls leave with_depth]. repeat split; assumption.
Qed.

Definition tag_fails (tag : bytes) : Prop :=
  match lookup_tag o tag with
  | Some h => exists ms, forall v, handler h v = (None, ms)
  | None => (reader_mode o =? READER_UNWRAP)%Z = false /\ (reader_mode o =? READER_ERROR)%Z = true
  end.

(* a tagged element whose handler refuses every value, or an unregistered tag under the ERROR default: the read fails *)
Lemma htag_fails n : HIH n -> forall tag ws x, (hsize x <= n)%nat -> tagok tag -> trivia ws -> ws <> [] -> hwf x -> hok x -> tag_fails tag ->
  forall s, is_ok s = true -> has_registry o && negb (discard s) = true ->
  let txt := "#"%byte :: tag ++ ws ++ hpr x in
  cur s + N.of_nat (List.length txt) <= e -> slice m (cur s) (List.length txt) = txt -> follow (cur s + N.of_nat (List.length txt)) ->
  exists f0, forall f, (f0 <= f)%nat -> exists s', RV f s = Ret None s' /\
    match lookup_tag o tag with
    | Some h => err s' = ESyntax /\ exists ms, msg s' = MHandler ms /\ forall v, handler h v = (None, ms)
    | None => err s' = EUnknownTag
    end.
Proof.
  intros IH tag ws x Hszx (Hne & Hid & Hhd & Hn1 & Hn2 & Hn3) Hws Hwsne Hwx Hox Htot s Hok Hreg txt Hle Hsl Hfol. unfold txt in *. clear txt.
  cbn [List.length] in Hle, Hsl, Hfol |- *. apply hbyte_hd in Hsl. destruct Hsl as [Hb0 Hsl].
  rewrite !app_length in Hle, Hsl, Hfol.
  rewrite slice_app in Hsl. apply app_eq_len in Hsl; [|now rewrite slice_length]. destruct Hsl as [Htg Hsl].
  rewrite slice_app in Hsl. apply app_eq_len in Hsl; [|now rewrite slice_length]. destruct Hsl as [Hwsl Hxsl].
  destruct tag as [|b0 tr]; [congruence|]. cbn [List.hd] in Hhd.
  assert (Hb1 : m (cur s + 1) = b0) by (apply (hbyte_at _ (b0 :: tr) b0 tr eq_refl Htg)).
  assert (Hidb : identb b0 = true) by (cbn [forallb] in Hid; now apply andb_prop in Hid as [? _]).
  destruct tag_byte_facts as [Htb Hdl].
  pose proof (byte_sweep _ Htb b0) as Hs0. cbv beta in Hs0. rewrite Hidb in Hs0.
  assert (Hnu : Byte.eqb b0 "_" = false) by (destruct (Byte.eqb b0 "_") eqn:E; [apply Byte.byte_dec_bl in E; congruence|reflexivity]).
  rewrite Hnu in Hs0. cbn [negb andb implb] in Hs0.
  apply andb_prop in Hs0 as [Hs0 T5]. apply andb_prop in Hs0 as [Hs0 T4]. apply andb_prop in Hs0 as [Hs0 T3]. apply andb_prop in Hs0 as [T1 T2].
  apply negb_true_iff in T1, T2, T3, T5.
  destruct (trivia_first ws Hws Hwsne) as (w0 & wr & Ews & Hw0).
  assert (Hdw : is_delim w0 = true) by (pose proof (byte_sweep _ Hdl w0) as H; cbv beta in H; now rewrite Hw0 in H).
  set (ltag := List.length (b0 :: tr)) in *.
  assert (Hmw : m (cur s + 1 + N.of_nat ltag) = w0) by (apply (hbyte_at _ ws w0 wr Ews Hwsl)).
  assert (Hlw : (0 < List.length ws)%nat) by (rewrite Ews; cbn; lia).
  destruct (hpr_first x Hwx) as (bx & rx & Epx & Hx1 & Hx2 & _).
  assert (Hlx : (0 < List.length (hpr x))%nat) by (rewrite Epx; cbn; lia).
  set (s0 := with_start (enter s) (cur s)).
  set (s1 := with_cur s0 (cur s0 + 1)).
  set (s2 := with_cur s1 (cur s1 + N.of_nat ltag)).
  set (so := with_depth s2 (depth s0 + 1)).
  assert (Hcso : cur so = cur s + 1 + N.of_nat ltag) by reflexivity.
  assert (Hst : stands m e (cur s1) (b0 :: tr)).
  { change (cur s1) with (cur s + 1). split; [fold ltag; lia|]. split; [exact Htg|]. right. fold ltag. now rewrite Hmw. }
  destruct (skp_facts so ws) as (Hc1 & Hok1 & Hd1 & Hdi1 & Hca1). set (sw := skp so ws) in *.
  assert (Hfs : fstarts (cur so + N.of_nat (List.length ws))).
  { right. rewrite Hcso. split; [lia|]. rewrite (hbyte_at _ (hpr x) bx rx Epx Hxsl). split; assumption. }
  assert (Habs : forall f, RV (S f) so = RV (S f) sw) by (intros f; apply absorb'; try assumption; rewrite Hcso; try assumption; lia).
  destruct (IH x Hszx Hwx Hox sw ltac:(rewrite Hok1; exact Hok) ltac:(rewrite Hc1, Hcso; lia) ltac:(rewrite Hc1, Hcso; exact Hxsl)
              ltac:(rewrite Hc1, Hcso; replace (cur s + 1 + N.of_nat ltag + N.of_nat (List.length ws) + N.of_nat (List.length (hpr x)))
                       with (cur s + N.of_nat (S (ltag + (List.length ws + List.length (hpr x))))) by lia; exact Hfol)) as (fx & Hfx).
  destruct (Hfx fx (le_n _)) as (v & s3 & cs1 & Hrv & Hdv & Hc3 & Hok3 & Hd3 & Hdi3 & Hca3).
  rewrite Hc1, Hcso in Hc3. rewrite Hd1 in Hd3. rewrite Hdi1 in Hdi3, Hdv. rewrite Hca1 in Hca3.
  change (discard so) with (discard s) in Hdi3, Hdv. change (calls so) with (calls s) in Hca3. change (depth so) with (depth s + 1) in Hd3.
  exists (S (S (S fx))). intros f Hf. destruct f as [|[|[|f]]]; try lia.
  assert (Hrun : RV (S f) so = Ret (Some v) s3).
  { rewrite Habs. replace (S f) with (fx + (S f - fx))%nat by lia. apply read_value_fuel_irrelevant; [exact Hrv|discriminate]. }
  destruct hash_facts as (_ & _ & Hpf & Hcls). rewrite forallb_forall in Hcls. specialize (Hcls c Hc). apply andb_prop in Hcls as [Hh Hnee].
  pose proof (not_earlier_spec c _ 5 ltac:(lia) Hnee) as Hn.
  rewrite RV_S. unfold value_body. cbv zeta. cbn [cur with_start enter].
  replace (cur s <? e) with true by (symmetry; apply N.ltb_lt; lia). rewrite Hb0, Hpf. cbn [cur with_start enter]. rewrite Hb0.
  usecls Hn 0%nat; usecls Hn 1%nat; usecls Hn 2%nat; usecls Hn 3%nat; usecls Hn 4%nat. rewrite Hh.
  replace (cur s + 1 <? e) with true by (symmetry; apply N.ltb_lt; lia). rewrite Hb1.
  change (is_byte b0 "{") with (Byte.eqb b0 "{"%byte). change (is_byte b0 "#") with (Byte.eqb b0 "#"%byte).
  change (is_byte b0 "_") with (Byte.eqb b0 "_"%byte). change (is_byte b0 ":") with (Byte.eqb b0 ":"%byte).
  rewrite T2, T3, Hnu, T5. cbn [andb]. rewrite andb_false_r. fold s0.
  rewrite RT_S. unfold tagged_body. cbv zeta. fold s1.
  replace (e <=? cur s1) with false by (symmetry; apply N.leb_gt; change (cur s1) with (cur s + 1); lia).
  change (m (cur s1)) with (m (cur s + 1)). rewrite Hb1, T1.
  rewrite (read_symbol_plain m e s1 (b0 :: tr) Hne Hid Hst Hn1 Hn2 Hn3). cbn [nval mk]. fold ltag. fold s2.
  replace (slice m (cur s1) (N.to_nat (cur s2 - cur s1))) with (b0 :: tr)
    by (change (cur s2) with (cur s1 + N.of_nat ltag); replace (N.to_nat (cur s1 + N.of_nat ltag - cur s1)) with ltag by lia; symmetry; exact Htg).
  fold so. rewrite Hrun.
  set (s4 := with_depth s3 (depth s0)).
  assert (Hdi4 : discard s4 = discard s) by exact Hdi3.
  rewrite Hdi4.
  set (q := cur s + N.of_nat (S (ltag + (List.length ws + List.length (hpr x))))).
  assert (Hq : cur s3 = q) by (rewrite Hc3; unfold q; lia).
  rewrite Hreg. unfold tag_fails in Htot. destruct (lookup_tag o (b0 :: tr)) as [h|] eqn:Hlk.
  - destruct Htot as (ms & Hall). rewrite (Hall v). eexists. split; [reflexivity|]. split; [reflexivity|]. exists ms. split; [reflexivity|exact Hall].
  - destruct Htot as [Hun Her]. rewrite Hun, Her. eexists. split; [reflexivity|]. reflexivity.
Qed.

Theorem read_hterm : forall n, HIH n.
Proof.
  induction n as [|n IH]; intros a Hsz Hw Hko s Hok Hle Hsl Hf.
  - destruct a; cbn in Hsz; lia.
  - destruct a as [nm|neg ds|vec els tl|tag ws x].
    + destruct Hw as [Hne Hid]. exists 1%nat. intros f Hf1. destruct f as [|f]; [lia|].
      rewrite (rv_keyword_full c Hc o handler xe xh sort m e f s nm Hok Hne Hid Hle Hsl Hf).
      eexists. eexists. exists []. split; [reflexivity|]. split; [constructor; reflexivity|].
      unfold post. cbn [cur is_ok err depth discard calls leave with_cur with_start enter app hpr List.length]. repeat split; try assumption. lia.
    + destruct Hw as (Hne & Hd & Hl). exists 1%nat. intros f Hf1. destruct f as [|f]; [lia|].
      rewrite (rv_int_full c Hc o handler xe xh sort m e f s neg ds Hok Hne Hd Hl Hle Hsl Hf).
      eexists. eexists. exists []. split; [reflexivity|]. split; [constructor; reflexivity|].
      unfold post. cbn [cur is_ok err depth discard calls leave with_cur with_start enter app]. repeat split; assumption.
    + set (K := if vec then KVector else KList). set (op := if vec then "["%byte else "("%byte).
      assert (Hpr : hpr (HSeq vec els tl) = op :: hgtail (closer_of K) els tl) by (unfold op, K, hgtail; destruct vec; reflexivity).
      rewrite Hpr in Hle, Hsl |- *. cbn [List.length] in Hle, Hsl |- *. apply hbyte_hd in Hsl. destruct Hsl as [Hb Hbody].
      assert (Hlt : cur s < e) by lia.
      set (s0 := with_start (enter s) (cur s)).
      destruct (hseq_reads n vec IH els tl Hsz Hw Hko s0 Hok ltac:(cbn [cur s0 with_start enter]; fold K; lia) Hbody) as (f0 & Hf0).
      exists (S f0). intros f Hf'. destruct f as [|f]; [lia|].
      destruct (Hf0 f ltac:(lia)) as (xs & s' & cs & Hr & Hden & Hc' & Hok' & Hd' & Hdi' & Hca'). fold K in Hr, Hc'.
      rewrite (rv_opener c Hc o handler xe xh sort m e f s vec Hlt Hb). fold s0. change (kind_of_vec vec) with K. rewrite Hr. cbn [lv].
      eexists. eexists. exists cs. split; [reflexivity|]. split.
      * econstructor; [|exact Hden]. unfold K. destruct vec; reflexivity.
      * unfold post. cbn [cur is_ok err depth discard calls leave]. rewrite Hc'. cbn [cur s0 with_start enter depth discard calls] in *.
        repeat split; try assumption. lia.
    + cbn [hwf] in Hw. destruct Hw as (Htag & Hws & Hwsne & Hwx). cbn [hok] in Hko. destruct Hko as [Htot Hox]. cbn [hsize] in Hsz.
      exact (htag_reads n IH tag ws x ltac:(lia) Htag Hws Hwsne Hwx Hox Htot s Hok Hle Hsl Hf).
Qed.
End TAG.

(* ---- whole documents ---- *)
Theorem read_document_tags c o m a : In c all_cfgs -> hwf a -> hok o builtin_handler a ->
  slice m 0 (List.length (hpr a)) = hpr a ->
  exists r s n cs, run_doc c o m (N.of_nat (List.length (hpr a))) = Ret r s /\
                   r_value r = Some n /\ r_err r = EOk /\ r_eof r = false /\
                   hden c o builtin_handler false a n cs /\ calls (r_state r) = cs.
Proof.
  intros Hc Hw Hko Hsl. set (e := N.of_nat (List.length (hpr a))).
  destruct (read_hterm c Hc o builtin_handler no_ext_equal no_ext_hash (isort c) m e (hsize a) a (le_n _) Hw Hko init_pst eq_refl
              ltac:(cbn [cur init_pst]; unfold e; lia) Hsl ltac:(left; cbn [cur init_pst]; unfold e; lia)) as (f0 & Hf0).
  destruct (Hf0 f0 (le_n _)) as (n & s' & cs & Hr & Hden & Hcur & Hok & Hdep & Hdi & Hca).
  assert (Herr : err s' = EOk) by (now apply is_ok_iff).
  assert (Hdoc : exists r, read_doc c o builtin_handler no_ext_equal no_ext_hash (isort c) m e f0 = Ret r s' /\
                           r_value r = Some n /\ r_err r = EOk /\ r_eof r = false /\ r_state r = s').
  { unfold read_doc. rewrite Hr. cbv zeta. rewrite Hok.
    assert (Heof : is_eof s' = false) by (unfold is_eof; now rewrite Herr). rewrite Heof. cbn [andb].
    eexists. split; [reflexivity|]. cbn. repeat split; assumption. }
  destruct Hdoc as (r & Hrd & Hv & He & Hf & Hst).
  exists r, s', n, cs. split; [apply (any_fuel_is_the_run c o m e f0 _ Hc Hrd); discriminate|]. repeat split; try assumption.
  rewrite Hst, Hca. cbn [calls init_pst]. now rewrite app_nil_r.
Qed.

(* a handler that refuses the value fails the whole read with the handler's message; an unregistered tag under the ERROR
   default fails it with the class "unknown tag" (top-level tagged element; the inner form any term of the fragment) *)
Theorem tag_failure_document c o m tag ws x : In c all_cfgs -> tagok tag -> trivia ws -> ws <> [] -> hwf x -> hok o builtin_handler x ->
  has_registry o = true -> tag_fails o builtin_handler tag ->
  let txt := "#"%byte :: tag ++ ws ++ hpr x in
  slice m 0 (List.length txt) = txt ->
  exists r s, run_doc c o m (N.of_nat (List.length txt)) = Ret r s /\ r_value r = None /\ r_eof r = false /\
    match lookup_tag o tag with
    | Some h => r_err r = ESyntax /\ exists ms, r_msg r = MHandler ms /\ forall v, builtin_handler h v = (None, ms)
    | None => r_err r = EUnknownTag
    end.
Proof.
  intros Hc Htag Hws Hne Hwx Hox Hreg Hfail txt Hsl. set (e := N.of_nat (List.length txt)).
  destruct (htag_fails c Hc o builtin_handler no_ext_equal no_ext_hash (isort c) m e (hsize x)
              (read_hterm c Hc o builtin_handler no_ext_equal no_ext_hash (isort c) m e (hsize x)) tag ws x (le_n _) Htag Hws Hne Hwx Hox Hfail
              init_pst eq_refl ltac:(cbn [discard init_pst negb]; now rewrite Hreg) ltac:(cbn [cur init_pst]; unfold e, txt; lia) Hsl
              ltac:(left; cbn [cur init_pst]; unfold e, txt; lia)) as (f0 & Hf0).
  destruct (Hf0 f0 (le_n _)) as (s' & Hr & Hres).
  assert (Herr : err s' <> EOk /\ err s' <> EEof).
  { destruct (lookup_tag o tag); [destruct Hres as [-> _]|rewrite Hres]; split; discriminate. }
  assert (Hdoc : exists r, read_doc c o builtin_handler no_ext_equal no_ext_hash (isort c) m e f0 = Ret r s' /\
                           r_value r = None /\ r_eof r = false /\ r_err r = err s' /\ r_msg r = msg s').
  { unfold read_doc. rewrite Hr. cbv zeta.
    assert (Heof : is_eof s' = false) by (unfold is_eof; destruct (err s'); try reflexivity; exfalso; apply (proj2 Herr); reflexivity).
    rewrite Heof. cbn [andb]. destruct (is_ok s'); eexists; (split; [reflexivity|]); cbn; repeat split; reflexivity. }
  destruct Hdoc as (r & Hrd & A & B & C & D). exists r, s'.
  split; [apply (any_fuel_is_the_run c o m e f0 _ Hc Hrd); discriminate|]. split; [exact A|]. split; [exact B|].
  destruct (lookup_tag o tag); [|now rewrite C].
  destruct Hres as (E1 & ms & E2 & E3). split; [now rewrite C|]. exists ms. split; [now rewrite D|exact E3].
Qed.

(* without a registry every tag yields the generic tagged value and no handler is ever invoked *)
Lemma hden_no_registry c o handler d :
  has_registry o = false ->
  (forall a n cs, hden c o handler d a n cs -> cs = []) /\ (forall l xs cs, hden_l c o handler d l xs cs -> cs = []).
Proof.
  intros Hreg. apply hden_both_ind; intros; subst; try reflexivity; try assumption.
  all: try (rewrite Hreg in *; cbn [andb] in *; discriminate).
Qed.

(* non-vacuity:  [#inst 1 #_#inst [2] (#x #y :k) #_ #z 3]  *)
Example tag_example :
  let t1 := HTag (list_byte_of_string "inst") [" "%byte] (HInt false ["1"%byte]) in
  let d1 := HDisc [] (HTag (list_byte_of_string "inst") [" "%byte] (HSeq true [([], HInt false ["2"%byte])] [])) in
  let t2 := HSeq false [([], HTag ["x"%byte] [" "%byte] (HTag ["y"%byte] [" "%byte] (HKw ["k"%byte])))] [] in
  let a := HSeq true [([], t1); ([HWs [" "%byte]; d1; HWs [" "%byte]], t2)] [HWs [" "%byte]; HDisc [" "%byte] (HTag ["z"%byte] [" "%byte] (HInt false ["3"%byte]))] in
  hwf a /\ hpr a = list_byte_of_string "[#inst 1 #_#inst [2] (#x #y :k) #_ #z 3]".
Proof. split; [|reflexivity]. cbn. repeat split; try discriminate; try reflexivity; try exact I; left; discriminate. Qed.

(* ... read with a registry that maps "inst" to the wrapping handler and knows no other tag: the side condition holds, and
   running the model shows the log: ONE invocation (the #inst inside the discarded form is not seen by any handler) *)
Definition example_opts : opts :=
  {| has_registry := true; lookup_tag := fun t => if bytes_eqb t (lit "inst") then Some 1%Z else None;
     reader_mode := 0%Z; has_eof_value := false |}.
Definition mem_of (l : bytes) : mem := fun i => nth (N.to_nat i) l "000"%byte.
Example tag_example_ok :
  let t1 := HTag (list_byte_of_string "inst") [" "%byte] (HInt false ["1"%byte]) in
  let d1 := HDisc [] (HTag (list_byte_of_string "inst") [" "%byte] (HSeq true [([], HInt false ["2"%byte])] [])) in
  let t2 := HSeq false [([], HTag ["x"%byte] [" "%byte] (HTag ["y"%byte] [" "%byte] (HKw ["k"%byte])))] [] in
  let a := HSeq true [([], t1); ([HWs [" "%byte]; d1; HWs [" "%byte]], t2)] [HWs [" "%byte]; HDisc [" "%byte] (HTag ["z"%byte] [" "%byte] (HInt false ["3"%byte]))] in
  hok example_opts builtin_handler a /\
  match run_doc cfg00 example_opts (mem_of (hpr a)) (N.of_nat (List.length (hpr a))) with
  | Ret r _ => map call_tag (calls (r_state r)) = [list_byte_of_string "inst"] /\ r_err r = EOk
  | _ => False
  end.
Proof.
  split.
  - cbn. repeat split; try exact I; try reflexivity; intros v; eexists; eexists; reflexivity.
  - vm_compute. split; reflexivity.
Qed.
