(* Proofs/HashDup.v -- the hash-table duplicate strategy (uniqueness.c edn_has_duplicates_hash):
   open addressing with linear probing in a power-of-two table.  For EVERY list of elements,
   whatever their hashes are (all equal, all colliding into one probe run, wrapping around the end
   of the table ...), the verdict is exactly the pairwise verdict on the same elements with their
   hashes cached:  fst (dup_hash l) = dup_linear (map hash_cache l),
   and the "table full" fallback is never taken.  No assumption on the equality relation is
   needed beyond what the model's equality does by itself (two values with different non-zero
   cached hashes are never equal). *)
From Coq Require Import ZArith NArith List Bool Lia.
From Verif Require Import Lanes Common Values Floats Numbers Equality.
Import ListNotations.
Local Open Scope Z_scope.

Lemma land_mask a k : 0 <= k -> Z.land a (2 ^ k - 1) = a mod 2 ^ k.
Proof. intros Hk. replace (2 ^ k - 1) with (Z.ones k) by (rewrite Z.ones_equiv; lia). now apply Z.land_ones. Qed.

Section Tbl.
Context {A : Type}.
Fixpoint count_some (t : list (option A)) : nat :=
  match t with [] => O | Some _ :: r => S (count_some r) | None :: r => count_some r end.
Lemma count_some_le t : (count_some t <= length t)%nat.
Proof. induction t as [|[a|] r IH]; cbn; lia. Qed.
Lemma exists_empty t : (count_some t < length t)%nat -> exists j, (j < length t)%nat /\ nth j t None = None.
Proof.
  induction t as [|[a|] r IH]; cbn; intros H; [lia| |].
  - destruct IH as (j & Hj & Hn); [lia|]. exists (S j). split; [lia|exact Hn].
  - exists O. split; [lia|reflexivity].
Qed.
Lemma set_nth_length n (x : option A) t : length (set_nth n x t) = length t.
Proof. revert n. induction t as [|y r IH]; intros [|n]; cbn; try reflexivity. now rewrite IH. Qed.
Lemma nth_set_nth_eq n (x : option A) t : (n < length t)%nat -> nth n (set_nth n x t) None = x.
Proof. revert n. induction t as [|y r IH]; intros [|n] H; cbn in *; try lia; [reflexivity|apply IH; lia]. Qed.
Lemma nth_set_nth_ne n j (x : option A) t : n <> j -> nth j (set_nth n x t) None = nth j t None.
Proof. revert n j. induction t as [|y r IH]; intros [|n] [|j] H; cbn; try reflexivity; try congruence. apply IH. congruence. Qed.
Lemma count_set_nth n (a : A) t : (n < length t)%nat -> nth n t None = None ->
  count_some (set_nth n (Some a) t) = S (count_some t).
Proof.
  revert n. induction t as [|y r IH]; intros [|n] H Hn; cbn in *; try lia.
  - subst y. reflexivity.
  - destruct y; cbn; rewrite IH; try lia; try assumption; reflexivity.
Qed.
End Tbl.

Lemma existsb_or {A} (f g : A -> bool) l : existsb (fun a => f a || g a) l = existsb f l || existsb g l.
Proof.
  induction l as [|a l IH]; cbn [existsb]; [reflexivity|]. rewrite IH.
  destruct (f a), (g a), (existsb f l), (existsb g l); reflexivity.
Qed.

Section Hash.
Variable c : cfg.
Variable xe : Z -> option (Z -> Z -> bool).
Variable xh : Z -> option (Z -> Z).
Variable sort : list node -> list node.

Notation equal := (equal c xe).
Notation hc := (hash_cache c xh).

(* ---- the two facts about equality and cached hashes the strategy relies on ---- *)
Lemma hash_cache_nonzero x : nhash (hc x) <> 0.
Proof.
  unfold hash_cache, hash_value. destruct x as [v s e mm h]. cbn [set_hash nhash].
  destruct (h =? 0) eqn:E; [|apply Z.eqb_neq in E; exact E].
  destruct (hash_internal c xh (Node v s e mm h) =? 0) eqn:E2; [discriminate|now apply Z.eqb_neq in E2].
Qed.
Lemma equal_true_same_hash a b : equal a b = true -> nhash a <> 0 -> nhash b <> 0 -> nhash a = nhash b.
Proof.
  unfold Equality.equal. destruct max_depth as [|f]; [discriminate|]. cbn [equal_fuel]. intros H Ha Hb.
  destruct (negb (type_of c (nval a) =? type_of c (nval b)) && negb (is_seq (nval a) && is_seq (nval b))); [discriminate|].
  apply Z.eqb_neq in Ha, Hb. rewrite Ha, Hb in H. cbn [negb andb] in H.
  destruct (nhash a =? nhash b) eqn:E; [now apply Z.eqb_eq in E|discriminate].
Qed.

(* ---- the table ---- *)
Variable k : Z.
Hypothesis Hk : 0 <= k.
Notation size := (2 ^ k).
Notation entry := (option (node * Z)).

Lemma size_pos : 0 < size. Proof. apply Z.pow_pos_nonneg; lia. Qed.
Definition home (h : Z) : Z := Z.land h (size - 1).
Definition pos (hm : Z) (d : nat) : Z := (hm + Z.of_nat d) mod size.
Lemma home_mod h : home h = h mod size. Proof. unfold home. now apply land_mask. Qed.
Lemma pos_range hm d : 0 <= pos hm d < size. Proof. unfold pos. apply Z.mod_pos_bound, size_pos. Qed.
Lemma pos_next hm d : Z.land (pos hm d + 1) (size - 1) = pos hm (S d).
Proof.
  rewrite land_mask by exact Hk. unfold pos. rewrite Zplus_mod_idemp_l. f_equal. lia.
Qed.
Lemma pos_0 h : pos (home h) 0 = home h.
Proof. unfold pos. rewrite Z.add_0_r. rewrite home_mod. apply Z.mod_mod. pose proof size_pos. lia. Qed.
(* every slot is at some offset from any home *)
Lemma pos_reaches hm j : 0 <= j < size -> exists d, (d < Z.to_nat size)%nat /\ pos hm d = j.
Proof.
  intros Hj. pose proof size_pos as Hs. exists (Z.to_nat ((j - hm) mod size)).
  pose proof (Z.mod_pos_bound (j - hm) size Hs) as Hb. split; [lia|].
  unfold pos. rewrite Z2Nat.id by lia. rewrite Zplus_mod_idemp_r. replace (hm + (j - hm)) with j by lia.
  apply Z.mod_small. lia.
Qed.

Definition slot (t : list entry) (z : Z) : entry := nth (Z.to_nat z) t None.
Definition matches (h : Z) (elem : node) (en : entry) : bool :=
  match en with Some (x, hx) => (hx =? h) && equal x elem | None => false end.

(* probe, started at offset d from the home slot with [fuel] steps left *)
Lemma probe_spec t elem h hm : forall fuel d,
  match probe c xe fuel t size (pos hm d) elem h with
  | Some (true, j) => matches h elem (slot t j) = true
  | Some (false, j) => exists dj, (d <= dj < d + fuel)%nat /\ j = pos hm dj /\ slot t j = None /\
                                  forall d', (d <= d' < dj)%nat -> slot t (pos hm d') <> None /\ matches h elem (slot t (pos hm d')) = false
  | None => forall d', (d <= d' < d + fuel)%nat -> slot t (pos hm d') <> None /\ matches h elem (slot t (pos hm d')) = false
  end.
Proof.
  induction fuel as [|f IH]; intros d; cbn [probe]; [intros d' Hd'; lia|].
  fold (slot t (pos hm d)). destruct (slot t (pos hm d)) as [[x hx]|] eqn:Es.
  - destruct ((hx =? h) && equal x elem) eqn:Em.
    + rewrite Es. exact Em.
    + rewrite pos_next. specialize (IH (S d)).
      destruct (probe c xe f t size (pos hm (S d)) elem h) as [[[|] j]|].
      * exact IH.
      * destruct IH as (dj & Hdj & Hj & Hn & Hall). exists dj. split; [lia|]. split; [exact Hj|]. split; [exact Hn|].
        intros d' Hd'. destruct (Nat.eq_dec d' d) as [->|Hne]; [rewrite Es; split; [discriminate|exact Em]|apply Hall; lia].
      * intros d' Hd'. destruct (Nat.eq_dec d' d) as [->|Hne]; [rewrite Es; split; [discriminate|exact Em]|apply IH; lia].
  - exists d. split; [lia|]. split; [reflexivity|]. split; [exact Es|]. intros d' Hd'. lia.
Qed.

(* ---- the invariant of the insertion loop ---- *)
Record inv (t : list entry) (seen : list node) : Prop := {
  i_len : length t = Z.to_nat size;
  i_sound : forall j x hx, (j < length t)%nat -> nth j t None = Some (x, hx) -> In x seen /\ hx = nhash x;
  i_reach : forall y, In y seen -> exists d, (d < Z.to_nat size)%nat /\ slot t (pos (home (nhash y)) d) = Some (y, nhash y) /\
                                  forall d', (d' < d)%nat -> slot t (pos (home (nhash y)) d') <> None;
  i_count : count_some t = length seen;
}.

Lemma inv_init : inv (repeat None (Z.to_nat size)) [].
Proof.
  constructor.
  - apply repeat_length.
  - intros j x hx Hj Hn. rewrite nth_repeat in Hn. discriminate.
  - intros y [].
  - induction (Z.to_nat size); cbn; [reflexivity|assumption].
Qed.

(* what the probe tells about the elements already in the table *)
Lemma probe_found t seen elem h j : inv t seen ->
  probe c xe (Z.to_nat size) t size (home h) elem h = Some (true, j) ->
  existsb (fun y => equal y elem) seen = true.
Proof.
  intros I H. pose proof (probe_spec t elem h (home h) (Z.to_nat size) O) as P. rewrite pos_0, H in P.
  unfold matches in P. destruct (slot t j) as [[x hx]|] eqn:Es; [|discriminate].
  apply andb_prop in P as [_ Pe]. apply existsb_exists. exists x. split; [|exact Pe].
  unfold slot in Es. destruct (Nat.lt_ge_cases (Z.to_nat j) (length t)) as [Hlt|Hge].
  - now destruct (i_sound _ _ I _ _ _ Hlt Es).
  - rewrite nth_overflow in Es by assumption. discriminate.
Qed.

Lemma probe_not_found t seen elem h j : inv t seen -> nhash elem = h -> h <> 0 -> (forall y, In y seen -> nhash y <> 0) ->
  probe c xe (Z.to_nat size) t size (home h) elem h = Some (false, j) ->
  existsb (fun y => equal y elem) seen = false /\ 0 <= j < size /\ slot t j = None /\
  (exists dj, (dj < Z.to_nat size)%nat /\ j = pos (home h) dj /\ forall d', (d' < dj)%nat -> slot t (pos (home h) d') <> None).
Proof.
  intros I Hh Hnz Hseen H. pose proof (probe_spec t elem h (home h) (Z.to_nat size) O) as P. rewrite pos_0, H in P.
  destruct P as (dj & Hdj & Hj & Hn & Hall). split; [|split; [rewrite Hj; apply pos_range|split; [exact Hn|]]].
  - destruct (existsb (fun y => equal y elem) seen) eqn:Ex; [|reflexivity]. exfalso.
    apply existsb_exists in Ex as (y & Hy & Heq).
    assert (Hhy : nhash y = h) by (rewrite <- Hh; apply equal_true_same_hash; [exact Heq|now apply Hseen|now rewrite Hh]).
    destruct (i_reach _ _ I y Hy) as (d & Hd & Hs & Hbefore). rewrite Hhy in Hs, Hbefore.
    destruct (Nat.lt_ge_cases d dj) as [Hlt|Hge].
    + destruct (Hall d ltac:(lia)) as [_ Hm]. rewrite Hs in Hm. unfold matches in Hm. rewrite Z.eqb_refl, Heq in Hm. discriminate.
    + destruct (Nat.eq_dec d dj) as [->|Hne]; [rewrite <- Hj, Hn in Hs; discriminate|].
      apply (Hbefore dj ltac:(lia)). rewrite <- Hj. exact Hn.
  - exists dj. split; [lia|]. split; [exact Hj|]. intros d' Hd'. apply Hall. lia.
Qed.

Lemma probe_never_full t seen elem h : inv t seen -> (length seen < Z.to_nat size)%nat ->
  probe c xe (Z.to_nat size) t size (home h) elem h <> None.
Proof.
  intros I Hlen H. pose proof (probe_spec t elem h (home h) (Z.to_nat size) O) as P. rewrite pos_0, H in P.
  destruct (exists_empty t) as (j & Hj & Hn); [rewrite (i_count _ _ I), (i_len _ _ I); exact Hlen|].
  rewrite (i_len _ _ I) in Hj.
  destruct (pos_reaches (home h) (Z.of_nat j) ltac:(lia)) as (d & Hd & Hp).
  destruct (P d ltac:(lia)) as [Hocc _]. apply Hocc. unfold slot. rewrite Hp, Nat2Z.id. exact Hn.
Qed.

Lemma inv_insert t seen x j : inv t seen -> 0 <= j < size -> slot t j = None ->
  (exists dj, (dj < Z.to_nat size)%nat /\ j = pos (home (nhash x)) dj /\ forall d', (d' < dj)%nat -> slot t (pos (home (nhash x)) d') <> None) ->
  inv (set_nth (Z.to_nat j) (Some (x, nhash x)) t) (x :: seen).
Proof.
  intros I Hj Hn (dj & Hdj & Hjp & Hbefore). pose proof (i_len _ _ I) as Hl.
  assert (Hjl : (Z.to_nat j < length t)%nat) by lia.
  assert (Hslot : forall z, 0 <= z < size -> slot (set_nth (Z.to_nat j) (Some (x, nhash x)) t) z =
                    if z =? j then Some (x, nhash x) else slot t z).
  { intros z Hz. unfold slot. destruct (Z.eqb_spec z j) as [->|Hne]; [now apply nth_set_nth_eq|].
    apply nth_set_nth_ne. lia. }
  constructor.
  - now rewrite set_nth_length.
  - intros i y hy Hi Hy. rewrite set_nth_length in Hi. destruct (Nat.eq_dec i (Z.to_nat j)) as [->|Hne].
    + rewrite nth_set_nth_eq in Hy by assumption. injection Hy as <- <-. split; [now left|reflexivity].
    + rewrite nth_set_nth_ne in Hy by congruence. destruct (i_sound _ _ I _ _ _ Hi Hy). split; [now right|assumption].
  - intros y [<-|Hy].
    + exists dj. split; [exact Hdj|]. split.
      * rewrite Hslot by apply pos_range. rewrite <- Hjp, Z.eqb_refl. reflexivity.
      * intros d' Hd'. rewrite Hslot by apply pos_range. destruct (_ =? j); [discriminate|now apply Hbefore].
    + destruct (i_reach _ _ I y Hy) as (d & Hd & Hs & Hb). exists d. split; [exact Hd|]. split.
      * rewrite Hslot by apply pos_range. destruct (Z.eqb_spec (pos (home (nhash y)) d) j) as [E|_]; [|exact Hs].
        rewrite E, Hn in Hs. discriminate.
      * intros d' Hd'. rewrite Hslot by apply pos_range. destruct (_ =? j); [discriminate|now apply Hb].
  - rewrite count_set_nth; [cbn [length]; now rewrite (i_count _ _ I)|assumption|exact Hn].
Qed.

(* ---- the loop: the verdict is the pairwise scan of the hashed elements ---- *)
Fixpoint scan (seen l : list node) : bool :=
  match l with
  | [] => false
  | x :: r => existsb (fun y => equal y (hc x)) seen || scan (hc x :: seen) r
  end.

Lemma dup_hash_loop_scan : forall l t seen, inv t seen -> (forall y, In y seen -> nhash y <> 0) ->
  (length seen + length l <= Z.to_nat size)%nat ->
  fst (dup_hash_loop c xe xh sort l t size seen) = scan seen l.
Proof.
  induction l as [|x r IH]; intros t seen I Hnz Hlen; cbn [dup_hash_loop scan]; [reflexivity|].
  fold (home (nhash (hc x))).
  pose proof (probe_never_full t seen (hc x) (nhash (hc x)) I ltac:(cbn [length] in Hlen; lia)) as Hfull.
  destruct (probe c xe (Z.to_nat size) t size (home (nhash (hc x))) (hc x) (nhash (hc x))) as [[[|] j]|] eqn:Ep; [| |congruence].
  - cbn [fst]. now rewrite (probe_found _ _ _ _ _ I Ep).
  - destruct (probe_not_found t seen (hc x) (nhash (hc x)) j I eq_refl (hash_cache_nonzero x) Hnz Ep) as (Hex & Hj & Hn & Hd).
    rewrite Hex. cbn [orb]. apply IH.
    + now apply inv_insert.
    + intros y [<-|Hy]; [apply hash_cache_nonzero|now apply Hnz].
    + cbn [length] in *. lia.
Qed.

Lemma scan_linear : forall l seen,
  scan seen l = existsb (fun x' => existsb (fun y => equal y x') seen) (map hc l) || dup_linear c xe (map hc l).
Proof.
  induction l as [|x r IH]; intros seen; cbn [scan map existsb dup_linear]; [reflexivity|].
  rewrite IH. cbn [existsb].
  rewrite existsb_or.
  destruct (existsb (fun y => equal y (hc x)) seen), (existsb (fun y' => equal (hc x) y') (map hc r)),
           (existsb (fun x' => existsb (fun y => equal y x') seen) (map hc r)), (dup_linear c xe (map hc r)); reflexivity.
Qed.
End Hash.

(* ---- the table size: a power of two that holds all the elements ---- *)
Lemma table_size_grow : forall fuel kz want, 0 <= kz ->
  exists k', kz <= k' /\
    (fix grow (fuel : nat) (size : Z) : Z :=
       match fuel with O => size | S f => if size <? want then grow f (size * 2) else size end) fuel (2 ^ kz) = 2 ^ k' /\
    (want <= 2 ^ k' \/ k' = kz + Z.of_nat fuel).
Proof.
  induction fuel as [|f IH]; intros kz want Hk.
  - exists kz. split; [lia|]. split; [reflexivity|right; lia].
  - destruct (Z.ltb_spec (2 ^ kz) want) as [Hlt|Hge].
    + destruct (IH (kz + 1) want ltac:(lia)) as (k' & H1 & H2 & H3).
      exists k'. split; [lia|]. replace (2 ^ kz * 2) with (2 ^ (kz + 1)) by (rewrite Z.pow_add_r by lia; lia).
      split; [exact H2|]. destruct H3 as [H3|H3]; [left; exact H3|right; lia].
    + exists kz. split; [lia|]. split; [reflexivity|left; lia].
Qed.

Theorem dup_hash_correct c xe xh sort l : Z.of_nat (length l) < 2 ^ 64 ->
  fst (dup_hash c xe xh sort l) = dup_linear c xe (map (hash_cache c xh) l).
Proof.
  intros Hn. unfold dup_hash, table_size.
  (* the generated constants: the first size is a power of two, the load factor is at least 1 *)
  assert (Hinit : HASH_INIT_SIZE = 2 ^ 4) by reflexivity.
  assert (Hload : 0 < HASH_LOAD_DEN <= HASH_LOAD_NUM) by (unfold HASH_LOAD_DEN, HASH_LOAD_NUM; lia).
  destruct (table_size_grow 64 4 (Z.quot (Z.of_nat (length l) * HASH_LOAD_NUM) HASH_LOAD_DEN) ltac:(lia)) as (k' & Hk1 & Hk2 & Hk3).
  rewrite Hinit, Hk2.
  assert (Hfit : Z.of_nat (length l) <= 2 ^ k').
  { assert (Hq : Z.of_nat (length l) <= Z.quot (Z.of_nat (length l) * HASH_LOAD_NUM) HASH_LOAD_DEN) by (apply Z.quot_le_lower_bound; nia).
    destruct Hk3 as [H|H]; [lia|]. subst k'. change (2 ^ (4 + Z.of_nat 64)) with (2 ^ 68). lia. }
  rewrite (dup_hash_loop_scan c xe xh sort k' ltac:(lia) l _ []).
  - rewrite scan_linear. cbn [existsb].
    replace (existsb (fun _ : node => false) (map (hash_cache c xh) l)) with false; [reflexivity|].
    induction (map (hash_cache c xh) l) as [|z zs IHz]; cbn [existsb]; [reflexivity|exact IHz].
  - apply inv_init; lia.
  - intros y [].
  - cbn [length]. lia.
Qed.
