(* Proofs/RoundTripMap.v -- MAP LITERALS over the fragment of RoundTripGap.v (C08 for keys, C10 for the odd map, at the
   level of whole documents): a document  { g1 k1 h1 v1 ... gn kn hn vn tl }  -- keys and values any terms of the
   fragment, trivia and discarded forms in every gap, any number of entries -- is rejected with the class "duplicate key"
   exactly when two of its KEYS are equal, and is otherwise accepted as a map with all n entries in order; a map whose
   last key has no value is rejected with the class "invalid syntax". *)
From Coq Require Import ZArith NArith List Bool Lia String Permutation Sorted.
From Coq.Strings Require Import Byte.
From Verif Require Import Lanes Common Values Floats Scan ScanFacts Numbers Equality Tokens Reader Configs ByteSweep ScanProofs
     FidelityProofs NumProgress NumLiteral FlagProofs FuelMono TriviaProofs TriviaReader ReaderInv EqBasics EqEquiv HashDup SortDup History
     RoundTrip RoundTripWs RoundTripEq RoundTripGap RoundTripErr RoundTripSet.
Import ListNotations.
Local Open Scope N_scope.

Lemma map_brace_facts :
  prefilter (bz "{") = false /\
  forallb (fun c => (dispatch_of c "{" =? ct_map c)%Z && not_earlier c (dispatch_of c "{") 4) all_cfgs = true.
Proof. vm_compute. split; reflexivity. Qed.

(* an entry: gap, key, gap, value *)
Definition entry := (list gitem * gterm * (list gitem * gterm))%type.
Definition ekey (en : entry) : gterm := snd (fst en).
Definition eval_ (en : entry) : gterm := snd (snd en).
Definition entext (en : entry) : bytes := gappr (fst (fst en)) ++ gpr (ekey en) ++ gappr (fst (snd en)) ++ gpr (eval_ en).
Definition etext (l : list entry) : bytes := List.concat (map entext l).
Definition enwf (en : entry) : Prop :=
  (gapwf (fst (fst en)) /\ alt (fst (fst en)) /\ ends_ws (fst (fst en))) /\ gwf (ekey en) /\
  (gapwf (fst (snd en)) /\ alt (fst (snd en)) /\ ends_ws (fst (snd en)) /\ starts_ws (fst (snd en))) /\ gwf (eval_ en).
Definition en_seps (l : list entry) : Prop := match l with [] => True | _ :: t => Forall (fun en => starts_ws (fst (fst en))) t end.

Section MAP.
Variable c : cfg.
Hypothesis Hc : In c all_cfgs.
Variable o : opts.
Variable handler : Z -> node -> option node * option bytes.
Variable m : mem.
Variable e : N.

Notation xe := no_ext_equal.
Notation xh := no_ext_hash.
Notation RV := (read_value c o handler xe xh (isort c) m e).
Notation RM := (read_map c o handler xe xh (isort c) m e).
Notation REN := (read_entries c o handler xe xh (isort c) m e).
Notation follow := (ends_at m e).
Notation stops := (stops c o handler xe xh (isort c) m e).

Lemma REN_S f s st ns ks vs : REN (S f) s st ns ks vs = entries_body (fun s1 => RV f s1) (fun s1 st n k v => REN f s1 st n k v) s st ns ks vs.
Proof. reflexivity. Qed.
Lemma RM_S f s st ns : RM (S f) s st ns = map_body c xe xh (isort c) m e (fun s1 st n ks vs => REN f s1 st n ks vs) s st ns.
Proof. reflexivity. Qed.

Lemma gap_first_follow g x rest q : gapwf g -> starts_ws g -> slice m q (List.length ((gappr g ++ gpr x) ++ rest)) = (gappr g ++ gpr x) ++ rest ->
  q + N.of_nat (List.length ((gappr g ++ gpr x) ++ rest)) <= e -> follow q.
Proof.
  intros Hg Hs Hsl Hle. destruct (gap_ws_first g Hg Hs) as (b & rr & E & Hn).
  assert (E2 : (gappr g ++ gpr x) ++ rest = b :: rr ++ gpr x ++ rest) by (rewrite E; cbn [app]; now rewrite <- !app_assoc).
  right. split; [rewrite E2 in Hle; cbn [List.length] in Hle; lia|]. now rewrite (byte_at m q _ b _ E2 Hsl).
Qed.

Lemma en_seps_tail (t : list entry) : Forall (fun en => starts_ws (fst (fst en))) t -> en_seps t.
Proof. destruct t; [intros; exact I|]. intros H. exact (Forall_inv_tail H). Qed.

(* the entry loop in front of a position where the entry reader does something known, for every pair of accumulators:
   P <keys so far, reversed> <values so far, reversed> <result> *)
Lemma entries_loop (P : list node -> list node -> res (option (list node * list node)) -> Prop) :
  forall l, Forall enwf l -> en_seps l ->
  forall pend st, (l <> [] -> follow pend) ->
  (forall s, cur s = pend -> is_ok s = true -> depth s <> 0 -> exists f0, forall f, (f0 <= f)%nat -> forall ks vs, P ks vs (REN f s st None ks vs)) ->
  forall s ks vs, is_ok s = true -> depth s <> 0 ->
  cur s + N.of_nat (List.length (etext l)) = pend -> pend <= e -> slice m (cur s) (List.length (etext l)) = etext l ->
  exists f0, forall f, (f0 <= f)%nat -> exists kx vx,
    Forall2 (denotes c) (map (fun en => gerase (ekey en)) l) kx /\ Forall2 (denotes c) (map (fun en => gerase (eval_ en)) l) vx /\
    P (rev kx ++ ks) (rev vx ++ vs) (REN f s st None ks vs).
Proof.
  induction l as [|[[g k] [h v]] t IHl]; intros Hw Hst pend st Hfol Hfin s ks vs Hok Hd Hend Hle Hsl.
  - unfold etext in *. cbn [map List.concat List.length N.of_nat] in *. destruct (Hfin s ltac:(lia) Hok Hd) as (f0 & Hf0).
    exists f0. intros f Hf. exists [], []. split; [constructor|]. split; [constructor|]. cbn [rev app]. now apply Hf0.
  - destruct (Forall_inv Hw) as ((Hwg & Haltg & Hendg) & Hwk & (Hwh & Halth & Hendh & Hsth) & Hwv). pose proof (Forall_inv_tail Hw) as Hwt.
    cbn [en_seps] in Hst. pose proof Hst as Hstt. unfold ekey, eval_ in *. cbn [fst snd] in *.
    match type of Hend with context [etext ?L] =>
      assert (Eet : etext L = (gappr g ++ gpr k) ++ (gappr h ++ gpr v) ++ etext t)
        by (unfold etext, entext, ekey, eval_; cbn [map List.concat fst snd]; rewrite <- !app_assoc; reflexivity) end.
    rewrite Eet in Hend, Hsl. rewrite app_length in Hend, Hsl. rewrite slice_app in Hsl. apply app_eq_len in Hsl; [|now rewrite slice_length].
    destruct Hsl as [Hgk Hrest]. pose proof Hrest as Hrest0. rewrite (app_length (gappr h ++ gpr v) (etext t)) in Hend, Hrest. rewrite slice_app in Hrest. apply app_eq_len in Hrest; [|now rewrite slice_length].
    destruct Hrest as [Hhv Ht].
    set (q1 := cur s + N.of_nat (List.length (gappr g ++ gpr k))) in *. set (q2 := q1 + N.of_nat (List.length (gappr h ++ gpr v))) in *.
    assert (Hf1 : follow q1).
    { apply (gap_first_follow h v (etext t) q1 Hwh Hsth); [exact Hrest0|rewrite (app_length (gappr h ++ gpr v) (etext t)); lia]. }
    assert (Hf2 : follow q2).
    { destruct t as [|[[g2 k2] [h2 v2]] t2].
      - unfold etext in Hend. cbn [map List.concat List.length] in Hend. replace q2 with pend by (unfold q2, q1; lia). apply Hfol. discriminate.
      - destruct (Forall_inv Hwt) as ((Hwg2 & _) & _). pose proof (Forall_inv Hstt) as Hsg2. cbn [fst snd] in *.
        match type of Ht with context [etext ?L] =>
          assert (E3 : etext L = (gappr g2 ++ gpr k2) ++ (gappr h2 ++ gpr v2) ++ etext t2)
            by (unfold etext, entext, ekey, eval_; cbn [map List.concat fst snd]; rewrite <- !app_assoc; reflexivity) end.
        rewrite E3 in Ht, Hend. apply (gap_first_follow g2 k2 _ q2 Hwg2 Hsg2 Ht). unfold q2, q1. lia. }
    destruct (gap_value c Hc o handler xe xh (isort c) m e g k Hwg Haltg Hendg Hwk s Hok ltac:(fold q1; lia) Hgk Hf1) as (fk & Hfk).
    destruct (Hfk fk (le_n _)) as (nk & sk & Hrk & Hdk & Hck & Hokk & Hdpk). fold q1 in Hck.
    destruct (gap_value c Hc o handler xe xh (isort c) m e h v Hwh Halth Hendh Hwv sk Hokk ltac:(rewrite Hck; fold q2; lia) ltac:(rewrite Hck; exact Hhv)
                ltac:(rewrite Hck; exact Hf2)) as (fv & Hfv).
    destruct (Hfv fv (le_n _)) as (nv & sv & Hrv & Hdv & Hcv & Hokv & Hdpv). rewrite Hck in Hcv. fold q2 in Hcv.
    destruct (IHl Hwt (en_seps_tail t Hstt) pend st ltac:(intros _; apply Hfol; discriminate) Hfin sv (nk :: ks) (nv :: vs) Hokv ltac:(now rewrite Hdpv, Hdpk)
                  ltac:(rewrite Hcv; unfold q2, q1; lia) Hle ltac:(rewrite Hcv; exact Ht)) as (ft & Hft).
    exists (S (Nat.max (Nat.max fk fv) ft)). intros f Hf. destruct f as [|f]; [lia|]. rewrite REN_S. unfold entries_body.
    assert (Hrk' : RV f s = Ret (Some nk) sk).
    { replace f with (fk + (f - fk))%nat by lia. apply read_value_fuel_irrelevant; [exact Hrk|discriminate]. }
    assert (Hrv' : RV f sk = Ret (Some nv) sv).
    { replace f with (fv + (f - fv))%nat by lia. apply read_value_fuel_irrelevant; [exact Hrv|discriminate]. }
    rewrite Hrk', Hrv'. destruct (Hft f ltac:(lia)) as (kx & vx & Hdk' & Hdv' & HP).
    exists (nk :: kx), (nv :: vx). cbn [map]. unfold ekey, eval_. cbn [fst snd].
    split; [constructor; assumption|]. split; [constructor; assumption|].
    cbn [rev]. rewrite <- !app_assoc. exact HP.
Qed.

(* the two ends: the closing brace after a gap; a key without a value *)
Lemma fin_close tl pend st : gapwf tl -> alt tl ->
  pend + N.of_nat (List.length (gappr tl ++ ["}"%byte])) <= e -> slice m pend (List.length (gappr tl ++ ["}"%byte])) = gappr tl ++ ["}"%byte] ->
  forall s, cur s = pend -> is_ok s = true -> depth s <> 0 -> exists f0, forall f, (f0 <= f)%nat -> forall ks vs,
    exists s', REN f s st None ks vs = Ret (Some (rev ks, rev vs)) s' /\ is_ok s' = true /\
               cur s' + 1 = pend + N.of_nat (List.length (gappr tl ++ ["}"%byte])) /\ m (cur s') = "}"%byte.
Proof.
  intros Hg Ha Hle Hsl s Hcs Hok Hd.
  destruct (stop_brace c Hc o handler m e tl pend Hg Ha Hle Hsl s Hcs Hok Hd) as (f0 & Hf0).
  exists (S f0). intros f Hf ks vs. destruct f as [|f]; [lia|]. destruct (Hf0 f ltac:(lia)) as (s' & Hr & Hok' & Hc' & Hm').
  rewrite REN_S. unfold entries_body. rewrite Hr, Hok'. cbn [negb]. exists s'. repeat split; assumption.
Qed.

Lemma fin_odd g k tl pend st : gapwf g -> alt g -> ends_ws g -> gwf k -> gapwf tl -> alt tl -> tail_ok tl ->
  let txt := (gappr g ++ gpr k) ++ gappr tl ++ ["}"%byte] in
  pend + N.of_nat (List.length txt) <= e -> slice m pend (List.length txt) = txt ->
  forall s, cur s = pend -> is_ok s = true -> depth s <> 0 -> exists f0, forall f, (f0 <= f)%nat -> forall ks vs,
    exists s', REN f s st None ks vs = Ret None s' /\ err s' = ESyntax.
Proof.
  intros Hg Ha He Hk Htl Hatl Htok txt Hle Hsl s Hcs Hok Hd. unfold txt in *. clear txt.
  rewrite app_length in Hle, Hsl. rewrite slice_app in Hsl. apply app_eq_len in Hsl; [|now rewrite slice_length]. destruct Hsl as [Hgk Ht].
  set (q := pend + N.of_nat (List.length (gappr g ++ gpr k))) in *.
  assert (Hfq : follow q).
  { right. destruct brace_facts as (_ & _ & N3 & _). destruct tl as [|[t0|ws d] r].
    - cbn [gappr map List.concat app List.length] in *. split; [unfold q; lia|]. apply byte_hd in Ht. destruct Ht as [-> _]. exact N3.
    - destruct (gap_ws_first (GWs t0 :: r) Htl I) as (b & rr & E & Hn).
      assert (E2 : gappr (GWs t0 :: r) ++ ["}"%byte] = b :: rr ++ ["}"%byte]) by now rewrite E.
      split; [rewrite E2 in Hle; cbn [List.length] in Hle; unfold q; lia|]. now rewrite (byte_at m q _ b _ E2 Ht).
    - contradiction. }
  destruct (gap_value c Hc o handler xe xh (isort c) m e g k Hg Ha He Hk s Hok ltac:(rewrite Hcs; fold q; lia) ltac:(rewrite Hcs; exact Hgk)
              ltac:(rewrite Hcs; exact Hfq)) as (fk & Hfk).
  destruct (Hfk fk (le_n _)) as (nk & sk & Hrk & _ & Hck & Hokk & Hdpk). rewrite Hcs in Hck. fold q in Hck.
  destruct (stop_brace c Hc o handler m e tl q Htl Hatl ltac:(unfold q; lia) Ht sk Hck Hokk ltac:(now rewrite Hdpk)) as (f0 & Hf0).
  exists (S (Nat.max fk f0)). intros f Hf ks vs. destruct f as [|f]; [lia|].
  assert (Hrk' : RV f s = Ret (Some nk) sk).
  { replace f with (fk + (f - fk))%nat by lia. apply read_value_fuel_irrelevant; [exact Hrk|discriminate]. }
  destruct (Hf0 f ltac:(lia)) as (s' & Hr & Hok' & _).
  rewrite REN_S. unfold entries_body. rewrite Hrk', Hr, Hok'. eexists. split; [reflexivity|]. reflexivity.
Qed.

(* the text of a map literal; [odd] = a last key without a value *)
Definition maptext (l : list entry) (odd : option (list gitem * gterm)) (tl : list gitem) : bytes :=
  "{"%byte :: etext l ++ (match odd with Some (g, k) => gappr g ++ gpr k | None => [] end) ++ gappr tl ++ ["}"%byte].
Definition mapwf (l : list entry) (odd : option (list gitem * gterm)) (tl : list gitem) : Prop :=
  Forall enwf l /\ en_seps l /\ gapwf tl /\ alt tl /\
  match odd with
  | Some (g, k) => gapwf g /\ alt g /\ ends_ws g /\ gwf k /\ (l <> [] -> starts_ws g) /\ tail_ok tl
  | None => l <> [] -> tail_ok tl
  end.

(* reading a map literal up to the duplicate check / the odd-entry error *)
Lemma map_reads l odd tl : mapwf l odd tl -> forall s, is_ok s = true ->
  cur s + N.of_nat (List.length (maptext l odd tl)) <= e -> slice m (cur s) (List.length (maptext l odd tl)) = maptext l odd tl ->
  exists f0, forall f, (f0 <= f)%nat ->
    match odd with
    | Some _ => exists s', RV f s = Ret None s' /\ err s' = ESyntax
    | None => exists kx vx s3,
        Forall2 (denotes c) (map (fun en => gerase (ekey en)) l) kx /\ Forall2 (denotes c) (map (fun en => gerase (eval_ en)) l) vx /\
        cur s3 = cur s + N.of_nat (List.length (maptext l odd tl)) /\ is_ok s3 = true /\
        RV f s = (let '(dup, ks') := if (2 <=? List.length kx)%nat then has_duplicates c xe xh (isort c) kx else (false, kx) in
                  if dup then Ret None (leave (err_at s3 EDupKey (cur s) (cur s3)))
                  else Ret (Some (mk (VMap ks' vx) (cur s) (cur s3))) (leave s3))
    end.
Proof.
  intros (Hw & Hseps & Hwtl & Halt & Hodd) s Hok Hle Hsl. unfold maptext in *.
  cbn [List.length] in Hle, Hsl. apply byte_hd in Hsl. destruct Hsl as [Hb0 Hbody].
  rewrite app_length in Hle, Hbody. rewrite slice_app in Hbody. apply app_eq_len in Hbody; [|now rewrite slice_length]. destruct Hbody as [Hl Hrest].
  set (pend := cur s + 1 + N.of_nat (List.length (etext l))) in *.
  set (s0 := with_start (enter s) (cur s)).
  set (s1 := with_depth (with_cur s0 (cur s0 + 1)) (depth s0 + 1)).
  assert (Hc1 : cur s1 = cur s + 1) by reflexivity.
  assert (Hd1 : depth s1 <> 0) by (unfold s1; cbn; lia).
  (* the dispatcher: '{' *)
  assert (Hdisp : forall f, RV (S (S f)) s = lv (map_body c xe xh (isort c) m e (fun s1 st n ks vs => REN f s1 st n ks vs) s0 (cur s0) None)).
  { intros f. destruct map_brace_facts as (Hpf & Hcls). rewrite forallb_forall in Hcls. specialize (Hcls c Hc). apply andb_prop in Hcls as [Hh Hnee].
    pose proof (not_earlier_spec c _ 4 ltac:(lia) Hnee) as Hn.
    rewrite RV_S. unfold value_body. cbv zeta. cbn [cur with_start enter].
    replace (cur s <? e) with true by (symmetry; apply N.ltb_lt; lia). rewrite Hb0, Hpf. cbn [cur with_start enter]. rewrite Hb0.
    usecls Hn 0%nat; usecls Hn 1%nat; usecls Hn 2%nat; usecls Hn 3%nat. rewrite Hh. fold s0. rewrite RM_S. reflexivity. }
  destruct odd as [[g k]|].
  - destruct Hodd as (Hg & Ha & He & Hk & Hsg & Htok).
    assert (Hfol : l <> [] -> follow pend).
    { intros Hne. specialize (Hsg Hne). apply (gap_first_follow g k (gappr tl ++ ["}"%byte]) pend Hg Hsg Hrest). unfold pend. lia. }
    destruct (entries_loop (fun _ _ r => exists s', r = Ret None s' /\ err s' = ESyntax) l Hw Hseps pend (cur s0) Hfol
                (fin_odd g k tl pend (cur s0) Hg Ha He Hk Hwtl Halt Htok ltac:(unfold pend; lia) Hrest)
                s1 [] [] Hok Hd1 ltac:(rewrite Hc1; reflexivity) ltac:(unfold pend; lia) ltac:(rewrite Hc1; exact Hl)) as (f0 & Hf0).
    exists (S (S f0)). intros f Hf. destruct f as [|[|f]]; try lia. rewrite Hdisp.
    destruct (Hf0 f ltac:(lia)) as (kx & vx & _ & _ & s' & Hr & He').
    unfold map_body. fold s1. rewrite Hr. cbn [lv]. eexists. split; [reflexivity|]. exact He'.
  - cbn [app] in Hle, Hrest.
    assert (Hfol : l <> [] -> follow pend).
    { intros Hne. specialize (Hodd Hne). right. destruct brace_facts as (_ & _ & N3 & _). destruct tl as [|[t0|ws d] r].
      - cbn [gappr map List.concat app List.length] in *. split; [unfold pend; lia|]. apply byte_hd in Hrest. destruct Hrest as [-> _]. exact N3.
      - destruct (gap_ws_first (GWs t0 :: r) Hwtl I) as (b & rr & E & Hn).
        assert (E2 : gappr (GWs t0 :: r) ++ ["}"%byte] = b :: rr ++ ["}"%byte]) by now rewrite E.
        split; [rewrite E2 in Hle; cbn [List.length] in Hle; unfold pend; lia|]. now rewrite (byte_at m pend _ b _ E2 Hrest).
      - contradiction. }
    destruct (entries_loop (fun ks vs r => exists s', r = Ret (Some (rev ks, rev vs)) s' /\ is_ok s' = true /\
                                              cur s' + 1 = pend + N.of_nat (List.length (gappr tl ++ ["}"%byte])) /\ m (cur s') = "}"%byte)
                l Hw Hseps pend (cur s0) Hfol (fin_close tl pend (cur s0) Hwtl Halt ltac:(unfold pend; lia) Hrest)
                s1 [] [] Hok Hd1 ltac:(rewrite Hc1; reflexivity) ltac:(unfold pend; lia) ltac:(rewrite Hc1; exact Hl)) as (f0 & Hf0).
    exists (S (S f0)). intros f Hf. destruct f as [|[|f]]; try lia. rewrite Hdisp.
    destruct (Hf0 f ltac:(lia)) as (kx & vx & Hdk & Hdv & s2 & Hr & Hok2 & Hc2 & Hm2).
    rewrite !app_nil_r, !rev_involutive in Hr.
    set (s3 := with_depth (with_cur s2 (cur s2 + 1)) (depth s2 - 1)).
    exists kx, vx, s3. split; [exact Hdk|]. split; [exact Hdv|].
    split; [unfold s3; cbn [cur with_depth with_cur List.length app]; rewrite app_length; unfold pend in Hc2; lia|]. split; [exact Hok2|].
    unfold map_body. fold s1. rewrite Hr.
    replace (e <=? cur s2) with false by (symmetry; apply N.leb_gt; unfold pend in Hc2; lia).
    rewrite Hm2. cbn [Byte.eqb negb]. rewrite (Byte.byte_dec_lb eq_refl). cbn [negb]. fold s3.
    change (Reader.v_has_dups c xe xh (isort c)) with (has_duplicates c xe xh (isort c)).
    destruct (if (2 <=? List.length kx)%nat then has_duplicates c xe xh (isort c) kx else (false, kx)) as [dup ks'].
    destruct dup; reflexivity.
Qed.
End MAP.

(* ---- whole documents ---- *)
Theorem map_document c o m l tl : In c all_cfgs -> mapwf l None tl ->
  let ts := map (fun en => gerase (ekey en)) l in
  Forall (fun t => (tdepth t <= max_depth)%nat) ts -> Forall tsmall ts -> (Z.of_nat (List.length l) < 2 ^ 64)%Z ->
  slice m 0 (List.length (maptext l None tl)) = maptext l None tl ->
  exists r s, run_doc c o m (N.of_nat (List.length (maptext l None tl))) = Ret r s /\ r_eof r = false /\
    ((has_equal_terms c ts /\ r_value r = None /\ r_err r = EDupKey) \/
     (~ has_equal_terms c ts /\ r_err r = EOk /\
      exists n ks' vx, r_value r = Some n /\ nval n = VMap ks' vx /\ List.length ks' = List.length l /\
                       Forall2 (denotes c) (map (fun en => gerase (eval_ en)) l) vx)).
Proof.
  intros Hc Hw ts Hdep Hsm Hlen Hsl. set (e := N.of_nat (List.length (maptext l None tl))).
  destruct (map_reads c Hc o builtin_handler m e l None tl Hw init_pst eq_refl ltac:(cbn [cur init_pst]; unfold e; lia) Hsl) as (f0 & Hf0).
  destruct (Hf0 f0 (le_n _)) as (kx & vx & s3 & Hdk & Hdv & Hc3 & Hok3 & Hr). fold ts in Hdk.
  assert (Hlx : List.length kx = List.length l).
  { apply F2_length in Hdk. unfold ts in Hdk. rewrite map_length in Hdk. lia. }
  pose proof (verdict c Hc ts kx Hdk Hdep Hsm ltac:(rewrite Hlx; exact Hlen)) as Hv.
  assert (Hfew : (2 <=? List.length kx)%nat = false -> ~ has_equal_terms c ts).
  { intros Hl (t1 & tx & t2 & ty & t3 & E & _). apply Nat.leb_gt in Hl. rewrite Hlx in Hl.
    assert (Hlt : List.length ts = List.length l) by (unfold ts; now rewrite map_length).
    rewrite E in Hlt. rewrite !app_length in Hlt. cbn [List.length] in Hlt. rewrite app_length in Hlt. cbn [List.length] in Hlt. lia. }
  destruct (2 <=? List.length kx)%nat eqn:Hl.
  - destruct (has_duplicates c no_ext_equal no_ext_hash (isort c) kx) as [dup ks'] eqn:Ehd. cbn [fst] in Hv.
    assert (Hlen' : List.length ks' = List.length l).
    { pose proof (has_duplicates_length c no_ext_equal no_ext_hash (isort c) kx) as Hh. rewrite Ehd in Hh. cbn [snd] in Hh. lia. }
    destruct dup.
    + destruct (doc_err c o m e f0 _ EDupKey Hr eq_refl ltac:(discriminate) ltac:(discriminate)) as (r & Hrd & A & B & C).
      exists r, (leave (err_at s3 EDupKey (cur init_pst) (cur s3))). split; [apply (any_fuel_is_the_run c o m e f0 _ Hc Hrd); discriminate|].
      split; [exact C|]. left. split; [now apply Hv|]. split; assumption.
    + destruct (doc_ok c o m e f0 _ _ Hr Hok3) as (r & Hrd & A & B & C).
      exists r, (leave s3). split; [apply (any_fuel_is_the_run c o m e f0 _ Hc Hrd); discriminate|].
      split; [exact C|]. right. split; [intros Hx; apply Hv in Hx; discriminate|]. split; [exact B|].
      eexists. exists ks', vx. split; [exact A|]. split; [reflexivity|]. split; [exact Hlen'|exact Hdv].
  - destruct (doc_ok c o m e f0 _ _ Hr Hok3) as (r & Hrd & A & B & C).
    exists r, (leave s3). split; [apply (any_fuel_is_the_run c o m e f0 _ Hc Hrd); discriminate|].
    split; [exact C|]. right. split; [now apply Hfew|]. split; [exact B|].
    eexists. exists kx, vx. split; [exact A|]. split; [reflexivity|]. split; [exact Hlx|exact Hdv].
Qed.

(* C10: a map with an odd number of forms *)
Theorem odd_map_rejected c o m l g k tl : In c all_cfgs -> mapwf l (Some (g, k)) tl ->
  slice m 0 (List.length (maptext l (Some (g, k)) tl)) = maptext l (Some (g, k)) tl ->
  exists r s, run_doc c o m (N.of_nat (List.length (maptext l (Some (g, k)) tl))) = Ret r s /\
              r_value r = None /\ r_err r = ESyntax /\ r_eof r = false.
Proof.
  intros Hc Hw Hsl. set (e := N.of_nat (List.length (maptext l (Some (g, k)) tl))).
  destruct (map_reads c Hc o builtin_handler m e l (Some (g, k)) tl Hw init_pst eq_refl ltac:(cbn [cur init_pst]; unfold e; lia) Hsl) as (f0 & Hf0).
  destruct (Hf0 f0 (le_n _)) as (s' & Hr & He).
  destruct (doc_err c o m e f0 _ ESyntax Hr He ltac:(discriminate) ltac:(discriminate)) as (r & Hrd & A & B & C).
  exists r, s'. split; [apply (any_fuel_is_the_run c o m e f0 _ Hc Hrd); discriminate|]. repeat split; assumption.
Qed.

(* non-vacuity:  {:a 1, [1] 2 #_:x (1) 3}  has two equal keys;  {:a 1 :b}  is odd *)
Example map_example :
  let l := [([], GKw ["a"%byte], ([GWs [" "%byte]], GInt false ["1"%byte]));
            ([GWs [","; " "]%byte], GSeq true [([], GInt false ["1"%byte])] [], ([GWs [" "%byte]], GInt false ["2"%byte]));
            ([GWs [" "%byte]; GDisc [] (GKw ["x"%byte]); GWs [" "%byte]], GSeq false [([], GInt false ["1"%byte])] [], ([GWs [" "%byte]], GInt false ["3"%byte]))] in
  mapwf l None [] /\ maptext l None [] = list_byte_of_string "{:a 1, [1] 2 #_:x (1) 3}" /\
  has_equal_terms cfg00 (map (fun en => gerase (ekey en)) l) /\
  mapwf [([], GKw ["a"%byte], ([GWs [" "%byte]], GInt false ["1"%byte]))] (Some ([GWs [" "%byte]], GKw ["b"%byte])) [] /\
  maptext [([], GKw ["a"%byte], ([GWs [" "%byte]], GInt false ["1"%byte]))] (Some ([GWs [" "%byte]], GKw ["b"%byte])) [] = list_byte_of_string "{:a 1 :b}".
Proof.
  split; [|split; [reflexivity|split; [|split; [|reflexivity]]]].
  - unfold mapwf. split; [|split; [|split; [|split]]].
    + repeat constructor; cbn; repeat split; try discriminate; try reflexivity; try exact I; left; discriminate.
    + cbn. repeat constructor.
    + exact I.
    + exact I.
    + intros _. exact I.
  - eexists [_], _, [], _, []. split; [reflexivity|]. reflexivity.
  - unfold mapwf. split; [|split; [|split; [|split]]].
    + repeat constructor; cbn; repeat split; try discriminate; try reflexivity; try exact I; left; discriminate.
    + cbn. repeat constructor.
    + exact I.
    + exact I.
    + cbn. repeat split; try discriminate; try reflexivity; try exact I.
Qed.
