(* Proofs/TriviaReader.v -- trivia in front of a form, at the level of the READER (C13): wherever a form is
   about to be read -- at top level, as an element of any collection, as the operand of a tag, a discard or a
   metadata marker -- a run of whitespace bytes, commas and complete line comments standing at the cursor is
   absorbed with no effect whatsoever: the reader started in front of the run returns exactly (value, error,
   positions, handler calls, every state component) what it returns when started behind it. *)
From Coq Require Import ZArith NArith List Bool Lia String.
From Coq.Strings Require Import Byte.
From Verif Require Import Lanes Common Values Floats Scan ScanFacts Numbers Equality Tokens Reader ScanProofs TriviaProofs.
Import ListNotations.
Local Open Scope N_scope.

Section TR.
Variable c : cfg.
Variable o : opts.
Variable handler : Z -> node -> option node * option bytes.
Variable xe : Z -> option (Z -> Z -> bool).
Variable xh : Z -> option (Z -> Z).
Variable sort : list node -> list node.
Variable m : mem.
Variable e : N.

(* the byte at q does not start trivia (or q is the end of the input) *)
Definition form_starts (q : N) : Prop := q = e \/ (q < e /\ is_ws (m q) = false /\ is_semi (m q) = false).

Lemma skip_ws_stays q : q <= e -> form_starts q -> skip_ws m q e = q.
Proof.
  intros Hq Hf. rewrite skip_ws_correct by assumption. destruct Hf as [->|(Hlt & Hw & Hs)].
  - rewrite N.sub_diag. cbn. lia.
  - replace (N.to_nat (e - q)) with (S (N.to_nat (e - q - 1))) by lia. rewrite slice_S. cbn [skip_ws_spec].
    rewrite Hs, Hw. lia.
Qed.

Lemma trivia_first t : trivia t -> t <> [] -> exists b r, t = b :: r /\ (is_ws b || is_semi b) = true.
Proof.
  destruct t as [|b r]; [congruence|]. intros H _. exists b, r. split; [reflexivity|].
  unfold trivia in H. cbn [ws_state] in H. destruct (is_semi b); [now rewrite orb_true_r|]. destruct (is_ws b); [reflexivity|discriminate].
Qed.

Theorem read_value_absorbs_trivia f s t :
  trivia t -> t <> [] -> slice m (cur s) (List.length t) = t -> cur s + N.of_nat (List.length t) <= e ->
  form_starts (cur s + N.of_nat (List.length t)) ->
  read_value c o handler xe xh sort m e (S f) s =
  read_value c o handler xe xh sort m e (S f) (with_cur s (cur s + N.of_nat (List.length t))).
Proof.
  intros Ht Hne Hsl Hle Hfs.
  destruct (trivia_first t Ht Hne) as (b & r & Et & Hb).
  assert (Hlt : cur s < e) by (rewrite Et in Hle; cbn [List.length] in Hle; lia).
  assert (Hmb : m (cur s) = b) by (rewrite Et in Hsl; cbn [List.length] in Hsl; rewrite slice_S in Hsl; now injection Hsl).
  clear Et. set (q := cur s + N.of_nat (List.length t)) in *.
  assert (Hskip : skip_ws m (cur s) e = q).
  { rewrite (skip_ws_trivia_insertion m (cur s) e t) by (try assumption; lia). now apply skip_ws_stays. }
  assert (Hpre : prefilter (bz (m (cur s))) = true).
  { rewrite Hmb. pose proof (prefilter_eq b) as H. apply eqb_true_eq in H. now rewrite H. }
  cbn [read_value]. unfold value_body. cbv zeta.
  change (cur (enter s)) with (cur s). change (cur (enter (with_cur s q))) with q.
  replace (cur s <? e) with true by (symmetry; now apply N.ltb_lt). rewrite Hpre, Hskip.
  destruct (N.ltb_spec q e) as [Hq|Hq].
  - (* a form follows *)
    destruct Hfs as [->|(_ & Hw & Hs)]; [lia|].
    assert (Hpq : prefilter (bz (m q)) = false).
    { pose proof (prefilter_eq (m q)) as H. apply eqb_true_eq in H. now rewrite H, Hw, Hs. }
    rewrite Hpq. reflexivity.
  - (* end of input *)
    assert (Hqe : q = e) by lia. rewrite Hqe. reflexivity.
Qed.

(* input consisting only of trivia (possibly ending inside a comment without a line feed) *)
Theorem read_value_trivia_only f t st :
  ws_state false t = Some st -> slice m 0 (N.to_nat e) = t -> List.length t = N.to_nat e ->
  exists s', read_value c o handler xe xh sort m e (S f) init_pst = Ret None s' /\ err s' = EEof /\ cur s' = e /\
             es s' = None /\ ee s' = None /\ calls s' = [].
Proof.
  intros Hst Hsl Hlen. cbn [read_value]. unfold value_body. cbv zeta. change (cur (enter init_pst)) with 0.
  destruct (N.ltb_spec 0 e) as [Hpos|Hz].
  - assert (Hskip : skip_ws m 0 e = e).
    { rewrite skip_ws_correct by lia. rewrite N.sub_0_r, Hsl, (trivia_only t st Hst), Hlen. lia. }
    assert (Hpre : prefilter (bz (m 0)) = true).
    { destruct t as [|b r]; [cbn in Hlen; lia|]. replace (N.to_nat e) with (S (N.to_nat e - 1)) in Hsl by lia.
      rewrite slice_S in Hsl. injection Hsl as Hb _. rewrite Hb.
      pose proof (prefilter_eq b) as H. apply eqb_true_eq in H. rewrite H.
      cbn [ws_state] in Hst. destruct (is_semi b); [now rewrite orb_true_r|]. destruct (is_ws b); [reflexivity|discriminate]. }
    rewrite Hpre, Hskip, N.ltb_irrefl.
    eexists. split; [reflexivity|]. cbn. repeat split; reflexivity.
  - assert (e = 0) by lia. subst e. eexists. split; [reflexivity|]. cbn. repeat split; reflexivity.
Qed.

(* ... reads as end of input: the end-of-input error, or exactly the caller's end-of-input value with no error *)
Theorem read_doc_trivia_only f t st :
  ws_state false t = Some st -> slice m 0 (N.to_nat e) = t -> List.length t = N.to_nat e ->
  exists r s', read_doc c o handler xe xh sort m e (S f) = Ret r s' /\ r_value r = None /\
    (if has_eof_value o then r_eof r = true /\ r_err r = EOk else r_eof r = false /\ r_err r = EEof) /\
    calls (r_state r) = [].
Proof.
  intros Hst Hsl Hlen. destruct (read_value_trivia_only f t st Hst Hsl Hlen) as (s' & Hr & He & Hc & Hes & Hee & Hcalls).
  unfold read_doc. rewrite Hr. cbv zeta.
  assert (Hok : is_ok s' = false) by (unfold is_ok; now rewrite He).
  assert (Heof : is_eof s' = true) by (unfold is_eof; now rewrite He).
  rewrite Hok, Heof. cbn [andb]. destruct (has_eof_value o); eexists; eexists; (split; [reflexivity|]); cbn; repeat split; try assumption; reflexivity.
Qed.
End TR.
