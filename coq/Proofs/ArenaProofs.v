(* Proofs/ArenaProofs.v -- the bump allocator arithmetic of arena.c (after the overflow
   repair): every block handed out is 8-byte aligned, at least the requested size, inside its
   block, and blocks handed out from one arena never overlap; a request that cannot be
   represented is refused. *)
From Coq Require Import ZArith NArith List Bool Lia.
From Verif Require Import Lanes Common Values Numbers Api.
Import ListNotations.
Local Open Scope Z_scope.

Ltac Zify.zify_post_hook ::= Z.div_mod_to_equations.

(* rounding up to a multiple of 8, for requests that pass the overflow guard *)
Lemma round8_spec size : 0 <= size <= size_max - 7 ->
  round8 size = 8 * ((size + 7) / 8).
Proof.
  intros H. unfold round8, u64, size_max, two64 in *.
  rewrite (Z.mod_small (size + 7)) by lia.
  replace (Z.lnot 7 mod 18446744073709551616) with (18446744073709551616 - 8) by reflexivity.
  (* x land (2^64 - 8) clears the low three bits of x < 2^64 *)
  assert (E : forall x, 0 <= x < 18446744073709551616 -> Z.land x (18446744073709551616 - 8) = 8 * (x / 8)).
  { intros x Hx. apply Z.bits_inj'. intros n Hn. rewrite Z.land_spec.
    replace (8 * (x / 8)) with (Z.shiftl (Z.shiftr x 3) 3) by (rewrite Z.shiftl_mul_pow2, Z.shiftr_div_pow2 by lia; change (2 ^ 3) with 8; lia).
    destruct (Z.ltb_spec n 3) as [Hlt|Hge].
    - rewrite Z.shiftl_spec_low by assumption.
      replace (Z.testbit (18446744073709551616 - 8) n) with false; [apply andb_false_r|].
      assert (Hn3 : n = 0 \/ n = 1 \/ n = 2) by lia. destruct Hn3 as [E0|[E1|E2]]; subst n; reflexivity.
    - rewrite Z.shiftl_spec by lia. rewrite Z.shiftr_spec by lia. replace (n - 3 + 3) with n by lia.
      destruct (Z.ltb_spec n 64) as [H64|H64].
      + replace (Z.testbit (18446744073709551616 - 8) n) with true; [apply andb_true_r|].
        change (18446744073709551616 - 8) with (Z.shiftl (Z.ones 61) 3). rewrite Z.shiftl_spec by lia.
        symmetry. apply Z.ones_spec_low. lia.
      + replace (Z.testbit x n) with false; [reflexivity|]. symmetry.
        destruct (Z.eq_dec x 0) as [->|Hx0]; [apply Z.testbit_0_l|].
        apply Z.bits_above_log2; [lia|]. apply Z.log2_lt_pow2; [lia|]. apply Z.lt_le_trans with (2 ^ 64); [exact (proj2 Hx)|].
        apply Z.pow_le_mono_r; lia. }
  apply E. lia.
Qed.

Lemma round8_ge size : 0 <= size <= size_max - 7 -> size <= round8 size /\ round8 size mod 8 = 0 /\ round8 size < size + 8.
Proof. intros H. rewrite round8_spec by assumption. lia. Qed.

(* a block invariant: used is a multiple of 8 and within capacity *)
Definition block_ok (b : block) : Prop := 0 <= b_used b <= b_cap b /\ b_used b mod 8 = 0.
Definition arena_ok (a : arena) : Prop := Forall block_ok (blocks a) /\ blocks a <> [] /\ 0 < next_size a.

Lemma arena_new_ok : arena_ok arena_new.
Proof.
  unfold arena_ok, arena_new. cbn [blocks next_size]. split; [|split; [discriminate|reflexivity]].
  constructor; [|constructor]. unfold block_ok. cbn [b_used b_cap]. vm_compute. repeat split; discriminate.
Qed.

(* one request *)
Theorem arena_alloc_spec malloc_ok a size r a' :
  arena_ok a -> 0 <= size -> arena_alloc malloc_ok a size = (r, a') ->
  arena_ok a' /\
  match r with
  | None => a' = a                           (* refused: the arena is unchanged *)
  | Some (blk, off) =>
    size <= size_max - 7 /\ off mod 8 = 0 /\
    (* the region [off, off + round8 size) lies in block blk of the new arena, below its used mark,
       and at or above the used mark the same block had before *)
    exists b', nth_error (rev (blocks a')) blk = Some b' /\ 0 <= off /\ off + round8 size = b_used b' /\ b_used b' <= b_cap b' /\
    (forall b, nth_error (rev (blocks a)) blk = Some b -> b_used b = off)
  end.
Proof.
  intros (Hall & Hne & Hns) Hsz. unfold arena_alloc.
  destruct (Z.gtb_spec size (size_max - 7)) as [Hbig|Hfit].
  - intros H; inversion H; subst. repeat split; assumption.
  - destruct (blocks a) as [|cur rest] eqn:Eb; [contradiction|].
    pose proof (round8_ge size ltac:(lia)) as (Hge & Hmod & Hlt).
    inversion Hall as [|? ? Hcur Hrest]; subst.
    destruct Hcur as [[Hu0 Hu1] Hu8].
    destruct (Z.leb_spec (round8 size) (b_cap cur - b_used cur)) as [Hroom|Hnoroom].
    + intros H; inversion H; subst; clear H. cbn [blocks next_size]. split.
      * repeat split; try assumption; try discriminate.
        constructor; [|assumption]. unfold block_ok. cbn. repeat split; try lia.
      * split; [lia|]. split; [assumption|].
        exists {| b_used := b_used cur + round8 size; b_cap := b_cap cur |}. cbn [rev].
        rewrite nth_error_app2 by (rewrite rev_length; lia). rewrite rev_length, Nat.sub_diag. cbn.
        repeat split; try lia.
        intros b Hb. rewrite nth_error_app2 in Hb by (rewrite rev_length; lia).
        rewrite rev_length, Nat.sub_diag in Hb. cbn in Hb. now inversion Hb.
    + set (bs := if round8 size >? next_size a then round8 size else next_size a).
      destruct (Z.gtb_spec bs (size_max - arena_header)) as [Hov|Hok].
      * intros H; inversion H; subst. repeat split; try assumption; try (rewrite Eb; assumption); rewrite Eb; discriminate.
      * destruct (malloc_ok (arena_header + bs)).
        -- intros H; inversion H; subst; clear H. cbn [blocks next_size].
           assert (Hbs : round8 size <= bs) by (unfold bs; destruct (Z.gtb_spec (round8 size) (next_size a)); lia).
           split.
           ++ repeat split; try discriminate.
              ** constructor; [unfold block_ok; cbn; repeat split; try lia|constructor; [repeat split; assumption|assumption]].
              ** destruct (next_size a <? ARENA_LARGE_SIZE); [destruct (next_size a * 2 >? ARENA_LARGE_SIZE)|]; cbn [next_size]; [reflexivity|lia|assumption].
           ++ split; [lia|]. split; [reflexivity|].
              exists {| b_used := round8 size; b_cap := bs |}. cbn [rev].
              rewrite nth_error_app2 by (rewrite app_length, rev_length; cbn; lia).
              rewrite app_length, rev_length. cbn [List.length]. replace (S (List.length rest) - (List.length rest + 1))%nat with 0%nat by lia.
              cbn. repeat split; try lia.
              intros b Hb. exfalso. change (nth_error (rev rest ++ [cur]) (S (List.length rest)) = Some b) in Hb.
              assert (nth_error (rev rest ++ [cur]) (S (List.length rest)) = None).
              { apply nth_error_None. rewrite app_length, rev_length. cbn. lia. }
              congruence.
        -- intros H; inversion H; subst. repeat split; try assumption; try (rewrite Eb; assumption); rewrite Eb; discriminate.
Qed.

(* blocks are only appended and their fill marks only grow *)
Lemma arena_alloc_monotone malloc_ok a size r a' :
  arena_ok a -> 0 <= size -> arena_alloc malloc_ok a size = (r, a') ->
  forall i b, nth_error (rev (blocks a)) i = Some b ->
  exists b', nth_error (rev (blocks a')) i = Some b' /\ b_used b <= b_used b'.
Proof.
  intros (Hall & Hne & Hns) Hsz. unfold arena_alloc.
  destruct (size >? size_max - 7) eqn:Eg.
  - intros H; inversion H; subst. intros i b Hb. exists b. split; [assumption|lia].
  - rewrite Z.gtb_ltb in Eg. apply Z.ltb_ge in Eg.
    destruct (blocks a) as [|cur rest] eqn:Eb; [contradiction|].
    pose proof (round8_ge size ltac:(lia)) as (Hge & Hmod & Hlt).
    destruct (round8 size <=? b_cap cur - b_used cur).
    + intros H; inversion H; subst; clear H. cbn [blocks rev]. intros i b Hb.
      destruct (Nat.lt_ge_cases i (List.length (rev rest))) as [Hi|Hi].
      * rewrite nth_error_app1 in Hb |- * by assumption. exists b. split; [assumption|lia].
      * rewrite nth_error_app2 in Hb |- * by assumption.
        destruct (i - List.length (rev rest))%nat as [|k]; cbn in Hb |- *.
        -- inversion Hb; subst. eexists. split; [reflexivity|]. cbn. lia.
        -- destruct k; discriminate.
    + destruct ((if round8 size >? next_size a then round8 size else next_size a) >? size_max - arena_header).
      * intros H; inversion H; subst. intros i b Hb. rewrite Eb. exists b. split; [assumption|lia].
      * destruct (malloc_ok _).
        -- intros H; inversion H; subst; clear H. cbn [blocks]. intros i b Hb.
           change (rev (?x :: cur :: rest)) with (rev (cur :: rest) ++ [x]).
           exists b. split; [|lia]. rewrite nth_error_app1; [assumption|].
           apply nth_error_Some. congruence.
        -- intros H; inversion H; subst. intros i b Hb. rewrite Eb. exists b. split; [assumption|lia].
Qed.

(* ---- sequences of requests: all handed-out regions are pairwise disjoint ---- *)
Definition region := (nat * Z * Z)%type.        (* block index, offset, length *)
Definition disjoint (x y : region) : Prop :=
  match x, y with (b1, o1, l1), (b2, o2, l2) => b1 <> b2 \/ o1 + l1 <= o2 \/ o2 + l2 <= o1 end.

Fixpoint arena_run (malloc_ok : Z -> bool) (a : arena) (reqs : list Z) : list region * arena :=
  match reqs with
  | [] => ([], a)
  | sz :: rest =>
    let '(r, a') := arena_alloc malloc_ok a sz in
    let '(regs, a'') := arena_run malloc_ok a' rest in
    (match r with Some (blk, off) => (blk, off, round8 sz) :: regs | None => regs end, a'')
  end.

(* every region handed out later starts at or above the fill mark its block had *)
Lemma arena_run_above malloc_ok reqs : forall a regs a', arena_ok a -> Forall (fun z => 0 <= z) reqs ->
  arena_run malloc_ok a reqs = (regs, a') ->
  arena_ok a' /\
  Forall (fun rg => match rg with (blk, off, len) =>
                      0 <= len /\ forall b, nth_error (rev (blocks a)) blk = Some b -> b_used b <= off end) regs.
Proof.
  induction reqs as [|sz rest IH]; intros a regs a' Hok Hnn; cbn [arena_run].
  - intros H; inversion H; subst. split; [assumption|constructor].
  - inversion Hnn as [|? ? Hsz Hrest]; subst.
    destruct (arena_alloc malloc_ok a sz) as [r a1] eqn:E1.
    destruct (arena_run malloc_ok a1 rest) as [regs1 a2] eqn:E2.
    pose proof (arena_alloc_spec malloc_ok a sz r a1 Hok Hsz E1) as [Hok1 Hspec].
    destruct (IH a1 regs1 a2 Hok1 Hrest E2) as [Hok2 Hall].
    intros H; inversion H; subst; clear H. split; [assumption|].
    assert (Hlift : Forall (fun rg => match rg with (blk, off, len) =>
                      0 <= len /\ forall b, nth_error (rev (blocks a)) blk = Some b -> b_used b <= off end) regs1).
    { eapply Forall_impl; [|exact Hall]. intros [[blk off] len] [Hl Hb]. split; [assumption|].
      intros b Hnb. destruct (arena_alloc_monotone malloc_ok a sz r a1 Hok Hsz E1 blk b Hnb) as (b' & Hb' & Hle).
      specialize (Hb b' Hb'). lia. }
    destruct r as [[blk off]|]; [|assumption].
    constructor; [|assumption].
    destruct Hspec as (Hs1 & Hs2 & b' & Hb' & Ho & Hu & Hc & Hold).
    pose proof (round8_ge sz ltac:(lia)) as (Hge & _ & _).
    split; [lia|]. intros b Hb. rewrite (Hold b Hb). lia.
Qed.

Theorem arena_regions_disjoint malloc_ok reqs : forall a regs a', arena_ok a -> Forall (fun z => 0 <= z) reqs ->
  arena_run malloc_ok a reqs = (regs, a') ->
  ForallOrdPairs disjoint regs.
Proof.
  induction reqs as [|sz rest IH]; intros a regs a' Hok Hnn; cbn [arena_run].
  - intros H; inversion H; subst. constructor.
  - inversion Hnn as [|? ? Hsz Hrest]; subst.
    destruct (arena_alloc malloc_ok a sz) as [r a1] eqn:E1.
    destruct (arena_run malloc_ok a1 rest) as [regs1 a2] eqn:E2.
    pose proof (arena_alloc_spec malloc_ok a sz r a1 Hok Hsz E1) as [Hok1 Hspec].
    pose proof (IH a1 regs1 a2 Hok1 Hrest E2) as Hrec.
    destruct (arena_run_above malloc_ok rest a1 regs1 a2 Hok1 Hrest E2) as [_ Habove].
    intros H; inversion H; subst; clear H.
    destruct r as [[blk off]|]; [|assumption].
    constructor; [|assumption].
    destruct Hspec as (Hs1 & Hs2 & b' & Hb' & Ho & Hu & Hc & Hold).
    eapply Forall_impl; [|exact Habove]. intros [[blk2 off2] len2] [Hl2 Hab]. unfold disjoint.
    destruct (Nat.eq_dec blk blk2) as [<-|Hne]; [|left; assumption].
    right. left. specialize (Hab b' Hb'). lia.
Qed.
