(* Proofs/RangeTok.v -- what each token reader guarantees about positions: the value it returns
   is a leaf spanning exactly [old cursor, new cursor), the new cursor and every error range it
   sets lie inside the input. *)
From Coq Require Import ZArith NArith List Bool Lia String.
From Coq.Strings Require Import Byte.
From Coq.Floats Require Import SpecFloat.
From Verif Require Import Lanes Common Values Floats Scan Numbers Equality Tokens Reader ScanProofs ReaderInv
     NumBounds RangeDefs.
Import ListNotations.
Local Open Scope N_scope.
Local Arguments skip_ws : simpl never.

Section Tok.
Variable c : cfg.
Variable m : mem.
Variable e : N.

Definition rng_pair_ok (a b : option N) : Prop :=
  match a, b with Some x, Some y => x <= y <= e | None, None => True | _, _ => False end.
(* the parser state's positions are inside the input *)
Definition st_ok (s : pst) : Prop := cur s <= e /\ rng_pair_ok (es s) (ee s).

Definition tok_post (s : pst) (r : res (option node)) : Prop :=
  match r with
  | Ret (Some n) s' => st_ok s' /\ nrs n = cur s /\ nre n = cur s' /\ is_leaf (nval n) = true
  | Ret None s' => st_ok s' /\ cur s <= cur s'
  | _ => True
  end.

Lemma st_ok_with_cur s q : st_ok s -> q <= e -> st_ok (with_cur s q).
Proof. unfold st_ok. cbn. tauto. Qed.
Lemma st_ok_with_error s code msg a b : a <= b -> b <= e -> cur s <= e -> st_ok (with_error s code msg a b).
Proof. unfold st_ok. cbn. lia. Qed.

(* ---- scanners stay inside [p, e] ---- *)
Lemma skip_ws_spec_le : forall l ic, (skip_ws_spec ic l <= List.length l)%nat.
Proof. induction l as [|b t IH]; intros ic; cbn [skip_ws_spec List.length]; [lia|].
  destruct ic; [specialize (IH (negb (is_lf b))); lia|].
  destruct (is_semi b); [specialize (IH true); lia|]. destruct (is_ws b); [specialize (IH false); lia|lia]. Qed.
Lemma skip_ws_in p : p <= e -> p <= skip_ws m p e <= e.
Proof.
  intros H. rewrite skip_ws_correct by assumption.
  pose proof (skip_ws_spec_le (slice m p (N.to_nat (e - p))) false) as Hl. rewrite slice_length in Hl. lia.
Qed.

Lemma find_quote_spec_in : forall l esc seen i k f, find_quote_spec esc seen i l = Some (k, f) -> (i <= k < i + List.length l)%nat.
Proof.
  induction l as [|b t IH]; intros esc seen i k f H; cbn [find_quote_spec List.length] in *; [discriminate|].
  destruct esc; [apply IH in H; lia|].
  destruct (is_bslash b); [apply IH in H; lia|].
  destruct (is_quote b); [injection H as <- _; lia|apply IH in H; lia].
Qed.
Lemma find_quote_in p q f : p <= e -> find_quote m p e = Some (q, f) -> p <= q < e.
Proof.
  intros Hp. rewrite find_quote_correct by assumption.
  destruct (find_quote_spec false false 0 _) as [[k f']|] eqn:Hs; cbn [lift_q]; [|discriminate].
  apply find_quote_spec_in in Hs. rewrite slice_length in Hs. intros H. injection H as <- _. lia.
Qed.

Lemma ident_spec_in : forall l pc sl i k sl', ident_spec pc sl i l = Some (k, sl') -> (i <= k <= i + List.length l)%nat.
Proof.
  induction l as [|b t IH]; intros pc sl i k sl' H; cbn [ident_spec List.length] in *; [injection H as <- _; lia|].
  destruct (is_delim b); [injection H as <- _; lia|].
  destruct (is_colon b && pc); [discriminate|]. apply IH in H. lia.
Qed.
Lemma scan_identifier_in p q sl : p <= e -> scan_identifier m p e = Some (q, sl) -> p <= q <= e.
Proof.
  intros Hp. rewrite scan_identifier_correct by assumption.
  destruct (ident_spec false None 0 _) as [[k sl']|] eqn:Hs; cbn [lift_slash]; [|discriminate].
  apply ident_spec_in in Hs. rewrite slice_length in Hs. intros H. injection H as <- _. lia.
Qed.

(* ---- text blocks ---- *)
Lemma tb_blank_in f : forall p, p <= e -> p <= tb_blank m e f p <= e.
Proof.
  induction f as [|f IH]; intros p Hp; cbn [tb_blank]; [lia|].
  destruct (N.ltb_spec p e); cbn [andb]; [|lia]. destruct (is_blank (m p)); [|lia]. specialize (IH (p + 1) ltac:(lia)). lia.
Qed.
Lemma tb_content_in f : forall p esc ce esc' t nc, tb_content m e f p esc = Some (ce, esc', t, nc) -> p < nc <= e.
Proof.
  induction f as [|f IH]; intros p esc ce esc' t nc H; cbn [tb_content] in H; [discriminate|].
  destruct (N.ltb_spec p e); [|discriminate].
  destruct (is_bslash (m p) && (p + 3 <? e) && _ && _ && _) eqn:H1.
  - apply IH in H. lia.
  - destruct (is_quote (m p) && (p + 3 <=? e) && _ && _) eqn:H2.
    + injection H as _ _ _ <-.
      apply andb_prop in H2 as [H2 _]. apply andb_prop in H2 as [H2 _]. apply andb_prop in H2 as [_ H2]. apply N.leb_le in H2. lia.
    + destruct (is_lf (m p)); [injection H as _ _ _ <-; lia|]. apply IH in H. lia.
Qed.
Lemma tb_line_in p ln nc : p <= e -> tb_line m e p = Some (ln, nc) -> p < nc <= e.
Proof.
  intros Hp. unfold tb_line. pose proof (tb_blank_in (S (N.to_nat (e - p))) p Hp) as Hb.
  destruct (tb_content m e _ _ false) as [[[[ce esc] t] nc']|] eqn:Hc; [|discriminate].
  apply tb_content_in in Hc. intros H. injection H as _ <-. lia.
Qed.
Lemma tb_lines_in f : forall p acc, p <= e ->
  match tb_lines m e f p acc with inl (_, nc) => p <= nc <= e | inr lp => p <= lp <= e end.
Proof.
  induction f as [|f IH]; intros p acc Hp; cbn [tb_lines]; [lia|].
  destruct (N.ltb_spec p e); [|lia].
  destruct (tb_line m e p) as [[ln nc]|] eqn:Hl; [|lia]. apply tb_line_in in Hl; [|assumption].
  destruct (tl_terminal ln); [lia|]. specialize (IH nc (ln :: acc) ltac:(lia)).
  destruct (tb_lines m e f nc (ln :: acc)) as [[ls nc']|lp]; lia.
Qed.

(* ---- the token readers ---- *)
Lemma tr_plain_string s : st_ok s -> cur s < e -> tok_post s (read_plain_string m e s).
Proof.
  intros [Hc Hr] Hlt. unfold read_plain_string, fail.
  destruct (find_quote m (cur s + 1) e) as [[q flag]|] eqn:Hq.
  - apply find_quote_in in Hq; [|lia]. cbn. unfold st_ok. cbn. repeat split; try assumption; lia.
  - (cbn [tok_post]; split; [apply st_ok_with_error; cbn; lia|cbn; lia]).
Qed.

Lemma tr_string s : st_ok s -> cur s < e -> tok_post s (read_string c m e s).
Proof.
  intros Hs Hlt. unfold read_string.
  destruct (exp c && (cur s + 3 <? e) && is_quote (m (cur s)) && is_quote (m (cur s + 1)) &&
            is_quote (m (cur s + 2)) && is_lf (m (cur s + 3)))%bool eqn:Hb.
  - assert (H3 : cur s + 3 < e).
    { do 4 (apply andb_prop in Hb as [Hb _]). apply andb_prop in Hb as [_ Hb]. now apply N.ltb_lt. }
    pose proof (tb_lines_in (S (N.to_nat (e - cur s))) (cur s + 4) [] ltac:(lia)) as Ht.
    destruct Hs as [Hc Hr].
    destruct (tb_lines m e _ _ _) as [[ls nc]|lp].
    + destruct (match rev ls with l :: _ => tl_terminal l | [] => false end); cbn.
      * unfold st_ok. cbn. repeat split; try assumption; lia.
      * (cbn [tok_post]; split; [apply st_ok_with_error; cbn; lia|cbn; lia]).
    + cbn. unfold st_ok. cbn. repeat split; [lia|assumption|lia].
  - now apply tr_plain_string.
Qed.

Lemma tr_identifier s : st_ok s -> cur s <= e -> tok_post s (read_identifier m e s).
Proof.
  intros [Hc Hr] Hle. unfold read_identifier, split_identifier, fail.
  destruct (scan_identifier m (cur s) e) as [[p sl]|] eqn:Hsc.
  2:{ (cbn [tok_post]; split; [apply st_ok_with_error; cbn; lia|cbn; lia]). }
  apply scan_identifier_in in Hsc; [|assumption].
  destruct (p =? cur s); [(cbn [tok_post]; split; [apply st_ok_with_error; cbn; lia|cbn; lia])|].
  assert (Hp : cur s + (p - cur s) = p) by lia.
  assert (Hok : forall v, is_leaf v = true ->
            tok_post s (Ret (Some (mk v (cur s) (cur s + (p - cur s)))) (with_cur s (cur s + (p - cur s))))).
  { intros v Hv. cbn. rewrite Hp. unfold st_ok. cbn. repeat split; try assumption; lia. }
  assert (Hbad : tok_post s (Ret None (with_error (with_cur s (cur s + (p - cur s))) ESyntax MStatic (cur s) (cur s + (p - cur s))))).
  { rewrite Hp. (cbn [tok_post]; split; [apply st_ok_with_error; cbn; lia|cbn; lia]). }
  destruct sl as [j|].
  - destruct (p - cur s =? 1).
    + destruct (is_colon _); [destruct (_ =? 0); [exact Hbad|]; destruct (is_colon _); [exact Hbad|now apply Hok]|].
      destruct (bytes_eqb _ (lit "nil")); [now apply Hok|].
      destruct (bytes_eqb _ (lit "true")); [now apply Hok|].
      destruct (bytes_eqb _ (lit "false")); now apply Hok.
    + destruct (j =? cur s); [(cbn [tok_post]; split; [apply st_ok_with_error; cbn; lia|cbn; lia])|].
      destruct (j =? p - 1); [(cbn [tok_post]; split; [apply st_ok_with_error; cbn; lia|cbn; lia])|].
      destruct (is_colon _); [destruct (_ =? 0); [exact Hbad|]; destruct (is_colon _); [exact Hbad|now apply Hok]|now apply Hok].
  - destruct (is_colon _); [destruct (_ =? 0); [exact Hbad|]; destruct (is_colon _); [exact Hbad|now apply Hok]|].
    destruct (bytes_eqb _ (lit "nil")); [now apply Hok|].
    destruct (bytes_eqb _ (lit "true")); [now apply Hok|].
    destruct (bytes_eqb _ (lit "false")); now apply Hok.
Qed.

Lemma tr_symbolic s : st_ok s -> cur s < e -> tok_post s (read_symbolic m e s).
Proof.
  intros [Hc Hr] Hlt. unfold read_symbolic, fail, match_at.
  destruct ((cur s + 2 + N.of_nat (List.length (lit "Inf")) <=? e) && _) eqn:H1.
  { apply andb_prop in H1 as [H1 _]. apply N.leb_le in H1. cbn in H1. cbn. unfold st_ok. cbn. repeat split; try assumption; lia. }
  destruct ((cur s + 2 + N.of_nat (List.length (lit "-Inf")) <=? e) && _) eqn:H2.
  { apply andb_prop in H2 as [H2 _]. apply N.leb_le in H2. cbn in H2. cbn. unfold st_ok. cbn. repeat split; try assumption; lia. }
  destruct ((cur s + 2 + N.of_nat (List.length (lit "NaN")) <=? e) && _) eqn:H3.
  { apply andb_prop in H3 as [H3 _]. apply N.leb_le in H3. cbn in H3. cbn. unfold st_ok. cbn. repeat split; try assumption; lia. }
  (cbn [tok_post]; split; [apply st_ok_with_error; cbn; lia|cbn; lia]).
Qed.

Lemma tr_number s : st_ok s -> cur s <= e -> tok_post s (read_number_tok c m e s).
Proof.
  intros [Hc Hr] Hle. unfold read_number_tok. pose proof (read_number_in c m e (cur s) Hle) as Hn.
  destruct (read_number c m e (cur s)) as [v q|q|site]; cbn [nres_in] in Hn; cbn [tok_post]; [| |exact I].
  - destruct Hn as [Hq Hl]. unfold st_ok. cbn. repeat split; try assumption; lia.
  - (cbn [tok_post]; split; [apply st_ok_with_error; cbn; lia|cbn; lia]).
Qed.

Lemma hex_run_n f : forall p acc n v n', hex_run m e f p acc n = (v, n') -> n <= n' /\ p + (n' - n) <= N.max p e.
Proof.
  induction f as [|f IH]; intros p acc n v n' H; cbn [hex_run] in H; [injection H as _ <-; lia|].
  destruct (N.ltb_spec p e); [|injection H as _ <-; lia].
  destruct (hexv (m p)); [|injection H as _ <-; lia]. apply IH in H. lia.
Qed.
Lemma oct_run_in f : forall p acc n v n' q, p <= e -> oct_run m e f p acc n = (v, n', q) -> p <= q <= e.
Proof.
  induction f as [|f IH]; intros p acc n v n' q Hp H; cbn [oct_run] in H; [injection H as _ _ <-; lia|].
  destruct (N.ltb_spec p e); cbn [andb] in H; [|injection H as _ _ <-; lia].
  destruct (is_oct (m p)); [|injection H as _ _ <-; lia]. apply IH in H; lia.
Qed.

Lemma tr_character s : st_ok s -> cur s < e -> tok_post s (read_character c m e s).
Proof.
  intros [Hc Hr] Hlt. cbv beta iota zeta delta [read_character fail].
  destruct (N.leb_spec e (cur s + 1)); [(cbn [tok_post]; split; [apply st_ok_with_error; cbn; lia|cbn; lia])|].
  assert (Hbad : forall b, cur s <= b -> b <= e -> tok_post s (Ret None (with_error s ECharacter MStatic (cur s) b))).
  { intros b H1 H2. cbn [tok_post]. split; [now apply st_ok_with_error|cbn; lia]. }
  assert (Hfin : forall (cp : Z) (q : N), cur s <= q -> q <= e ->
     tok_post s (if (cp >? 1114111)%Z then Ret None (with_error s ECharacter MStatic (cur s) q)
      else if (q <? e) && negb (is_delim (m q)) then Ret None (with_error s ECharacter MStatic (cur s) q)
      else Ret (Some (mk (VChar cp) (cur s) q)) (with_cur s q))).
  { intros cp q H1 H2. destruct (cp >? 1114111)%Z; [now apply Hbad|].
    destruct ((q <? e) && negb (is_delim (m q))); [now apply Hbad|].
    cbn. unfold st_ok. cbn. repeat split; try assumption. }
  assert (Hnamed : forall w, match_at m e (cur s + 1) (lit w) = true -> cur s + 1 + N.of_nat (List.length (lit w)) <= e).
  { intros w Hm. unfold match_at in Hm. apply andb_prop in Hm as [Hm _]. now apply N.leb_le. }
  repeat match goal with
         | |- context [match_at m e ?p (lit ?w)] =>
           let E := fresh "E" in destruct (match_at m e p (lit w)) eqn:E;
             [apply Hnamed in E; try (cbv beta iota; apply Hfin; lia)|clear E]
         end.
  all: repeat match goal with
         | |- context [if clj c then ?a else ?b] => destruct (clj c)
         end; cbn [andb]; try (cbv beta iota; apply Hfin; lia).
  all: repeat match goal with
         | |- context [match_at m e ?p (lit ?w)] =>
           let E := fresh "E" in destruct (match_at m e p (lit w)) eqn:E;
             [apply Hnamed in E; try (cbv beta iota; apply Hfin; lia)|clear E]
         end.
  all: try (destruct (is_byte (m (cur s + 1)) "o" && (cur s + 1 + 1 <? e) && is_dig (m (cur s + 1 + 1))) eqn:Ho;
            [apply andb_prop in Ho as [Ho _]; apply andb_prop in Ho as [_ Ho]; apply N.ltb_lt in Ho;
             unfold octal_escape; destruct (e <=? cur s + 1 + 1); [apply Hbad; lia|];
             destruct (oct_run m e 3 (cur s + 1 + 1) 0%Z 0) as [[ov on] oq] eqn:Hor; apply oct_run_in in Hor; [|lia];
             destruct (on =? 0); [apply Hbad; lia|];
             destruct ((oq <? e) && (is_byte (m oq) "8" || is_byte (m oq) "9")); [apply Hbad; lia|];
             destruct (ov >? 255)%Z; [apply Hbad; lia|]; apply Hfin; lia|]).
  all: destruct (is_byte (m (cur s + 1)) "u" && (cur s + 1 + 1 <? e) && is_hex (m (cur s + 1 + 1))) eqn:Hu;
    [apply andb_prop in Hu as [Hu _]; apply andb_prop in Hu as [_ Hu]; apply N.ltb_lt in Hu;
     unfold unicode_escape;
     destruct (N.ltb_spec e (cur s + 1 + 1 + 4));
       [cbv beta iota; destruct (N.leb_spec (cur s + 1 + 1 + 4) e); apply Hbad; lia|];
     destruct (hex_run m e _ (cur s + 1 + 1) 0%Z 0) as [hv hn] eqn:Hh; apply hex_run_n in Hh;
     destruct (hn <? 4); cbv beta iota;
       [destruct (N.leb_spec (cur s + 1 + 1 + 4) e); apply Hbad; lia|apply Hfin; lia]
    |cbv beta iota; destruct (single_char_ok c (bz (m (cur s + 1)))); cbv beta iota; [apply Hfin; lia|apply Hbad; lia]].
Qed.
End Tok.
