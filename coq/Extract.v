(* Extract.v -- extraction of the executable model to OCaml (run from /verif/extract so the
   files land there).  Only the directives of ExtrOcamlBasic are used. *)
From Coq Require Extraction.
From Coq Require Import ExtrOcamlBasic.
From Coq Require Import ZArith NArith List String.
From Coq.Strings Require Import Byte.
From Verif Require Import Lanes Common Values Floats Scan Numbers Equality Tokens Reader Api Configs.
Extraction Blacklist String List Nat Int.
Set Extraction AccessOpaque.
Extraction "model.ml"
  cfg00 cfg10 cfg01 cfg11 mk_opts run_doc run_doc_x
  skip_ws find_quote scan_digits scan_identifier split_identifier lf_index
  parse_int64 parse_double ratio_gcd le_val eight_digits_check eight_digits_value string_get decode
  equal hash_value hash_cache has_duplicates compare_nodes isort no_ext_equal no_ext_hash
  map_lookup map_contains set_contains map_get_keyword map_get_ns_keyword map_get_string_key
  reg_empty reg_register reg_unregister reg_lookup ext_register ext_unregister ext_lookup
  arena_new arena_alloc builtin_handler
  sf_to_bits sf_of_bits strtod_model get_position
  Byte.of_N Byte.to_N N.of_nat N.to_nat Z.of_N Z.to_N.
