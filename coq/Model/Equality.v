(* Model/Equality.v -- model of equality.c and uniqueness.c: structural equality with the
   depth cap and the cached-hash short-circuit, FNV-1a hashing, the qsort comparator, and
   the three duplicate-detection strategies.  No proofs in this file. *)
From Coq Require Import ZArith NArith List Bool String.
From Coq.Strings Require Import Byte.
From Coq.Floats Require Import SpecFloat.
From Verif Require Import Lanes Common Values Floats Numbers.
Import ListNotations.
Local Open Scope Z_scope.

Definition fnv_basis : Z := 14695981039346656037.
Definition fnv_prime : Z := 1099511628211.
Definition fnv_step (h x : Z) : Z := u64 (Z.lxor h x * fnv_prime).
Definition fnv_bytes (h : Z) (bs : bytes) : Z := fold_left (fun a b => fnv_step a (bz b)) bs h.
(* the 8 bytes of a 64-bit pattern, least significant first *)
Definition fnv_u64 (h : Z) (v : Z) : Z :=
  fold_left (fun a i => fnv_step a (Z.land (Z.shiftr v (8 * i)) 255)) [0;1;2;3;4;5;6;7] h.

(* memcmp on equal-length prefixes: sign of the first difference *)
Fixpoint bytes_cmp (a b : bytes) : Z :=
  match a, b with
  | x :: a', y :: b' => if Byte.eqb x y then bytes_cmp a' b' else bz x - bz y
  | _, _ => 0
  end.

Definition strip_us (bs : bytes) : bytes := filter (fun b => negb (is_us b)) bs.

(* digits as edn_bigint_get / edn_bigdec_get return them for an arena-owned value *)
Definition clean_digits (c : cfg) (bs : bytes) : bytes := if exp c then strip_us bs else bs.

Definition float_eq (a b : spec_float) : bool :=
  match a, b with
  | S754_nan, S754_nan => true
  | S754_nan, _ | _, S754_nan => false
  | _, _ => SFeqb a b
  end.

Definition opt_len (o : option bytes) : Z :=
  match o with None => 0 | Some b => Z.of_nat (List.length b) end.
Definition opt_bytes (o : option bytes) : bytes := match o with None => [] | Some b => b end.

Definition is_seq (v : value) : bool := match v with VList _ | VVector _ => true | _ => false end.

Section Eq.
Variable c : cfg.
(* external-type callbacks: equality and hash on (type_id, data) pairs; None = not registered *)
Variable ext_equal : Z -> option (Z -> Z -> bool).
Variable ext_hash : Z -> option (Z -> Z).

(* stored string length field and data as equality/hash see them *)
Definition str_len (raw : bytes) (pre : option bytes) : Z := Z.of_nat (List.length raw).

Fixpoint forall2b {A} (f : A -> A -> bool) (l1 l2 : list A) : bool :=
  match l1, l2 with
  | [], [] => true
  | x :: t1, y :: t2 => f x y && forall2b f t1 t2
  | _, _ => false
  end.

(* edn_value_equal_internal; [fuel] = MAX_RECURSION_DEPTH - depth.  Distinct tree nodes are
   distinct C objects, so the pointer-equality shortcut never applies between them; calls
   on the very same node are handled by the caller (equal_same). *)
Fixpoint equal_fuel (fuel : nat) (a b : node) : bool :=
  match fuel with
  | O => false
  | S f =>
    let va := nval a in let vb := nval b in
    if negb (Z.eqb (type_of c va) (type_of c vb)) && negb (is_seq va && is_seq vb) then false
    else if negb (nhash a =? 0) && negb (nhash b =? 0) && negb (nhash a =? nhash b) then false
    else
      match va, vb with
      | VNil, VNil => true
      | VBool x, VBool y => Bool.eqb x y
      | VInt x, VInt y => x =? y
      | VBigInt n1 r1 d1, VBigInt n2 r2 d2 =>
        (r1 =? r2) && Bool.eqb n1 n2 && bytes_eqb (clean_digits c d1) (clean_digits c d2)
      | VFloat x, VFloat y => float_eq x y
      | VBigDec n1 d1, VBigDec n2 d2 =>
        Bool.eqb n1 n2 && bytes_eqb (clean_digits c d1) (clean_digits c d2)
      | VRatio n1 d1, VRatio n2 d2 => (n1 =? n2) && (d1 =? d2)
      | VBigRatio s1 a1 b1, VBigRatio s2 a2 b2 => Bool.eqb s1 s2 && bytes_eqb a1 a2 && bytes_eqb b1 b2
      | VChar x, VChar y => x =? y
      | VString r1 e1 _, VString r2 e2 _ => Bool.eqb e1 e2 && bytes_eqb r1 r2
      | VSymbol ns1 nm1, VSymbol ns2 nm2
      | VKeyword ns1 nm1, VKeyword ns2 nm2 =>
        (opt_len ns1 =? opt_len ns2) && bytes_eqb (opt_bytes ns1) (opt_bytes ns2) && bytes_eqb nm1 nm2
      | VList xs, VList ys | VList xs, VVector ys | VVector xs, VList ys | VVector xs, VVector ys =>
        forall2b (equal_fuel f) xs ys
      | VSet xs, VSet ys =>
        (Z.of_nat (List.length xs) =? Z.of_nat (List.length ys)) &&
        forallb (fun x => existsb (fun y => equal_fuel f x y) ys) xs
      | VMap k1 v1, VMap k2 v2 =>
        (Z.of_nat (List.length k1) =? Z.of_nat (List.length k2)) &&
        forallb (fun kv =>
                   (* first key of b equal to this key decides *)
                   (fix find (ks vs : list node) : bool :=
                      match ks, vs with
                      | k :: ks', v :: vs' => if equal_fuel f (fst kv) k then equal_fuel f (snd kv) v
                                              else find ks' vs'
                      | _, _ => false
                      end) k2 v2)
                (combine k1 v1)
      | VTagged t1 x, VTagged t2 y => bytes_eqb t1 t2 && equal_fuel f x y
      | VExternal t1 d1, VExternal t2 d2 =>
        (t1 =? t2) && match ext_equal t1 with Some eqf => eqf d1 d2 | None => d1 =? d2 end
      | _, _ => false
      end
  end.

Definition max_depth : nat := Z.to_nat MAX_RECURSION_DEPTH.
Definition equal (a b : node) : bool := equal_fuel max_depth a b.

(* edn_value_hash_internal (uncached, recursive without depth cap: fuel = tree height) *)
Definition float_hash_bits (f : spec_float) : Z :=
  match f with
  | S754_nan => 9221120237041090560
  | S754_zero _ => 0                       (* +0.0 and -0.0 hash alike *)
  | _ => sf_to_bits f
  end.
Definition i64_bits (z : Z) : Z := u64 z.

Fixpoint hash_fuel (fuel : nat) (n : node) : Z :=
  match fuel with
  | O => 0
  | S f =>
    let v := nval n in
    let seed_ty := match v with VVector _ => type_of c (VList []) | _ => type_of c v end in
    let h0 := fnv_step fnv_basis seed_ty in
    match v with
    | VNil => h0
    | VBool b => fnv_step h0 (if b then 1 else 0)
    | VInt z => fnv_u64 h0 (i64_bits z)
    | VBigInt neg radix ds =>
      fnv_bytes (fnv_step (fnv_step h0 radix) (if neg then 1 else 0)) (clean_digits c ds)
    | VFloat x => fnv_u64 h0 (float_hash_bits x)
    | VBigDec neg ds => fnv_bytes (fnv_step h0 (if neg then 1 else 0)) (clean_digits c ds)
    | VRatio nu de => fnv_u64 (fnv_u64 h0 (i64_bits nu)) (i64_bits de)
    | VBigRatio _ _ _ => h0
    | VChar cp => fnv_step h0 cp
    | VString raw _ _ => fnv_bytes h0 raw
    | VSymbol ns nm | VKeyword ns nm => fnv_bytes (fnv_bytes h0 (opt_bytes ns)) nm
    | VList xs | VVector xs => fold_left (fun a x => fnv_step a (hash_fuel f x)) xs h0
    | VSet xs => fnv_step h0 (fold_left (fun a x => Z.lxor a (hash_fuel f x)) xs 0)
    | VMap ks vs =>
      fnv_step h0 (fold_left (fun a kv => Z.lxor a (Z.lxor (hash_fuel f (fst kv))
                                                          (u64 (hash_fuel f (snd kv) * fnv_prime))))
                             (combine ks vs) 0)
    | VTagged tag x => fnv_step (fnv_bytes h0 tag) (hash_fuel f x)
    | VExternal t d =>
      let h1 := fnv_step h0 t in
      match ext_hash t with Some hf => fnv_step h1 (u64 (hf d)) | None => fnv_u64 h1 (u64 d) end
    end
  end.

Fixpoint height (n : node) : nat :=
  match nval n with
  | VList xs | VVector xs | VSet xs => S (fold_left (fun a x => Nat.max a (height x)) xs O)
  | VMap ks vs => S (Nat.max (fold_left (fun a x => Nat.max a (height x)) ks O)
                             (fold_left (fun a x => Nat.max a (height x)) vs O))
  | VTagged _ x => S (height x)
  | _ => 1%nat
  end.

Definition hash_internal (n : node) : Z := hash_fuel (S (height n)) n.
(* edn_value_hash: cached value if present, otherwise computed (0 remapped to 1) *)
Definition hash_value (n : node) : Z :=
  if nhash n =? 0 then (let h := hash_internal n in if h =? 0 then 1 else h) else nhash n.
(* the node after edn_value_hash(n) *)
Definition hash_cache (n : node) : node := set_hash n (hash_value n).

(* edn_value_compare restricted to the kinds the sort-based strategy is allowed to see.
   Returns the sign class: negative / zero / positive as a Z *)
Definition trunc_int (z : Z) : Z := wrapS 32 z.          (* (int)(size_t difference) *)
Definition compare_nodes (a b : node) : Z :=
  let va := nval a in let vb := nval b in
  if negb (type_of c va =? type_of c vb) then type_of c va - type_of c vb
  else match va, vb with
       | VNil, VNil => 0
       | VBool x, VBool y => b2z x - b2z y
       | VInt x, VInt y => if x <? y then -1 else if x >? y then 1 else 0
       | VFloat x, VFloat y =>
         match x, y with
         | S754_nan, S754_nan => 0
         | S754_nan, _ => 1
         | _, S754_nan => -1
         | _, _ => if SFltb x y then -1 else if SFltb y x then 1 else 0
         end
       | VChar x, VChar y => if x <? y then -1 else if x >? y then 1 else 0
       | VString r1 e1 _, VString r2 e2 _ =>
         if negb (Bool.eqb e1 e2) then (if e1 then 1 else -1)
         else if negb (Z.of_nat (List.length r1) =? Z.of_nat (List.length r2))
              then trunc_int (Z.of_nat (List.length r1) - Z.of_nat (List.length r2))
              else bytes_cmp r1 r2
       | VSymbol ns1 nm1, VSymbol ns2 nm2 | VKeyword ns1 nm1, VKeyword ns2 nm2 =>
         if negb (opt_len ns1 =? opt_len ns2) then trunc_int (opt_len ns1 - opt_len ns2)
         else let cn := bytes_cmp (opt_bytes ns1) (opt_bytes ns2) in
              if negb (cn =? 0) then cn
              else if negb (Z.of_nat (List.length nm1) =? Z.of_nat (List.length nm2))
                   then trunc_int (Z.of_nat (List.length nm1) - Z.of_nat (List.length nm2))
                   else bytes_cmp nm1 nm2
       | _, _ => 0    (* other kinds never reach the comparator (gate below) *)
       end.

(* kinds for which compare_nodes = 0 exactly on equal values *)
Definition sort_comparable (n : node) : bool :=
  match nval n with
  | VNil | VBool _ | VInt _ | VFloat _ | VChar _ | VString _ _ _ | VSymbol _ _ | VKeyword _ _ => true
  | _ => false
  end.

(* ---- the three strategies ---- *)
Fixpoint dup_linear (l : list node) : bool :=
  match l with
  | [] => false
  | x :: t => existsb (fun y => equal x y) t || dup_linear t
  end.

(* qsort: any sorting function; the extracted instance is insertion sort with compare_nodes *)
Variable sort : list node -> list node.
Fixpoint adjacent_dup (l : list node) : bool :=
  match l with
  | x :: ((y :: _) as t) => equal x y || adjacent_dup t
  | _ => false
  end.
(* the scan over the sorted copy, with the loop parameters of the source (Gen/Common.v):
     for (i = FIRST; i < count - SUB; i++) if (equal (temp[i + L], temp[i + R])) ... *)
Definition window_dup (first sub la ra : Z) (l : list node) : bool :=
  let n := Z.of_nat (List.length l) in
  existsb (fun k => let i := first + Z.of_nat k in
                    match nth_error l (Z.to_nat (i + la)), nth_error l (Z.to_nat (i + ra)) with
                    | Some x, Some y => equal x y
                    | _, _ => false
                    end)
          (seq 0 (Z.to_nat (n - sub - first))).
Definition sorted_scan (l : list node) : bool :=
  window_dup SORTED_SCAN_FIRST SORTED_SCAN_BOUND_SUB SORTED_SCAN_LEFT SORTED_SCAN_RIGHT l.
Definition dup_sorted (l : list node) : bool :=
  if forallb sort_comparable l then sorted_scan (sort l) else dup_linear l.

(* open addressing with linear probing; table as a list of optional (node, hash) *)
(* load factor and first size are the literals of the source (Gen/Common.v) *)
Definition table_size (count : Z) : Z :=
  let want := Z.quot (count * HASH_LOAD_NUM) HASH_LOAD_DEN in
  (fix grow (fuel : nat) (size : Z) : Z :=
     match fuel with O => size | S f => if size <? want then grow f (size * 2) else size end) 64%nat HASH_INIT_SIZE.

Fixpoint probe (fuel : nat) (tbl : list (option (node * Z))) (size idx : Z) (elem : node) (h : Z)
  : option (bool * Z) :=         (* Some (true,_) = duplicate; Some (false, slot) = empty slot; None = table full *)
  match fuel with
  | O => None
  | S f =>
    match nth (Z.to_nat idx) tbl None with
    | None => Some (false, idx)
    | Some (x, hx) =>
      if (hx =? h) && equal x elem then Some (true, idx)
      else probe f tbl size (Z.land (idx + 1) (size - 1)) elem h
    end
  end.

Fixpoint set_nth {A} (n : nat) (x : A) (l : list A) : list A :=
  match n, l with
  | O, _ :: t => x :: t
  | S k, y :: t => y :: set_nth k x t
  | _, [] => []
  end.

(* returns (verdict, elements with their hashes cached) *)
Fixpoint dup_hash_loop (l : list node) (tbl : list (option (node * Z))) (size : Z) (done : list node)
  : bool * list node :=
  match l with
  | [] => (false, rev done)
  | x :: t =>
    let x' := hash_cache x in
    let h := nhash x' in
    match probe (Z.to_nat size) tbl size (Z.land h (size - 1)) x' h with
    | Some (true, _) => (true, rev done ++ x' :: t)
    | Some (false, slot) => dup_hash_loop t (set_nth (Z.to_nat slot) (Some (x', h)) tbl) size (x' :: done)
    | None => (dup_sorted (rev done ++ x' :: t), rev done ++ x' :: t)
    end
  end.
Definition dup_hash (l : list node) : bool * list node :=
  let size := table_size (Z.of_nat (List.length l)) in
  dup_hash_loop l (repeat None (Z.to_nat size)) size [].

(* edn_has_duplicates: verdict and the elements as they are afterwards (hash caches) *)
Definition has_duplicates (l : list node) : bool * list node :=
  let n := Z.of_nat (List.length l) in
  if n <=? 1 then (false, l)
  else if n <=? LINEAR_THRESHOLD then (dup_linear l, l)
  else if (n <=? SORTED_THRESHOLD) && forallb sort_comparable l then (dup_sorted l, l)
  else dup_hash l.
End Eq.
