(* Model/Configs.v -- the four feature-flag configurations, assembled from the GENERATED
   per-flag files, the built-in tag handlers used by the correspondence check, and the
   sorting function standing for qsort. *)
From Coq Require Import ZArith NArith List Bool String.
From Coq.Strings Require Import Byte.
From Verif Require Import Lanes Common Values Floats Scan Numbers Equality Tokens Reader.
From Verif Require G00 G10 G01 G11.
Import ListNotations.
Local Open Scope Z_scope.

Definition cfg00 : cfg :=
  {| clj := G00.clj; exp := G00.exp; dispatch := G00.dispatch_table;
     ct_ident := G00.CT_IDENTIFIER; ct_string := G00.CT_STRING; ct_char := G00.CT_CHARACTER;
     ct_list := G00.CT_LIST_OPEN; ct_vector := G00.CT_VECTOR_OPEN; ct_map := G00.CT_MAP_OPEN;
     ct_hash := G00.CT_HASH; ct_sign := G00.CT_SIGN; ct_digit := G00.CT_DIGIT;
     ct_delim := G00.CT_DELIMITER; ct_meta := G00.CT_METADATA;
     type_tag := [G00.TY_NIL; G00.TY_BOOL; G00.TY_INT; G00.TY_BIGINT; G00.TY_FLOAT; G00.TY_BIGDEC;
                  G00.TY_RATIO; G00.TY_BIGRATIO; G00.TY_CHARACTER; G00.TY_STRING; G00.TY_SYMBOL;
                  G00.TY_KEYWORD; G00.TY_LIST; G00.TY_VECTOR; G00.TY_MAP; G00.TY_SET; G00.TY_TAGGED;
                  G00.TY_EXTERNAL];
     single_char_ok := G00.valid_single_char |}.
Definition cfg10 : cfg :=
  {| clj := G10.clj; exp := G10.exp; dispatch := G10.dispatch_table;
     ct_ident := G10.CT_IDENTIFIER; ct_string := G10.CT_STRING; ct_char := G10.CT_CHARACTER;
     ct_list := G10.CT_LIST_OPEN; ct_vector := G10.CT_VECTOR_OPEN; ct_map := G10.CT_MAP_OPEN;
     ct_hash := G10.CT_HASH; ct_sign := G10.CT_SIGN; ct_digit := G10.CT_DIGIT;
     ct_delim := G10.CT_DELIMITER; ct_meta := G10.CT_METADATA;
     type_tag := [G10.TY_NIL; G10.TY_BOOL; G10.TY_INT; G10.TY_BIGINT; G10.TY_FLOAT; G10.TY_BIGDEC;
                  G10.TY_RATIO; G10.TY_BIGRATIO; G10.TY_CHARACTER; G10.TY_STRING; G10.TY_SYMBOL;
                  G10.TY_KEYWORD; G10.TY_LIST; G10.TY_VECTOR; G10.TY_MAP; G10.TY_SET; G10.TY_TAGGED;
                  G10.TY_EXTERNAL];
     single_char_ok := G10.valid_single_char |}.
Definition cfg01 : cfg :=
  {| clj := G01.clj; exp := G01.exp; dispatch := G01.dispatch_table;
     ct_ident := G01.CT_IDENTIFIER; ct_string := G01.CT_STRING; ct_char := G01.CT_CHARACTER;
     ct_list := G01.CT_LIST_OPEN; ct_vector := G01.CT_VECTOR_OPEN; ct_map := G01.CT_MAP_OPEN;
     ct_hash := G01.CT_HASH; ct_sign := G01.CT_SIGN; ct_digit := G01.CT_DIGIT;
     ct_delim := G01.CT_DELIMITER; ct_meta := G01.CT_METADATA;
     type_tag := [G01.TY_NIL; G01.TY_BOOL; G01.TY_INT; G01.TY_BIGINT; G01.TY_FLOAT; G01.TY_BIGDEC;
                  G01.TY_RATIO; G01.TY_BIGRATIO; G01.TY_CHARACTER; G01.TY_STRING; G01.TY_SYMBOL;
                  G01.TY_KEYWORD; G01.TY_LIST; G01.TY_VECTOR; G01.TY_MAP; G01.TY_SET; G01.TY_TAGGED;
                  G01.TY_EXTERNAL];
     single_char_ok := G01.valid_single_char |}.
Definition cfg11 : cfg :=
  {| clj := G11.clj; exp := G11.exp; dispatch := G11.dispatch_table;
     ct_ident := G11.CT_IDENTIFIER; ct_string := G11.CT_STRING; ct_char := G11.CT_CHARACTER;
     ct_list := G11.CT_LIST_OPEN; ct_vector := G11.CT_VECTOR_OPEN; ct_map := G11.CT_MAP_OPEN;
     ct_hash := G11.CT_HASH; ct_sign := G11.CT_SIGN; ct_digit := G11.CT_DIGIT;
     ct_delim := G11.CT_DELIMITER; ct_meta := G11.CT_METADATA;
     type_tag := [G11.TY_NIL; G11.TY_BOOL; G11.TY_INT; G11.TY_BIGINT; G11.TY_FLOAT; G11.TY_BIGDEC;
                  G11.TY_RATIO; G11.TY_BIGRATIO; G11.TY_CHARACTER; G11.TY_STRING; G11.TY_SYMBOL;
                  G11.TY_KEYWORD; G11.TY_LIST; G11.TY_VECTOR; G11.TY_MAP; G11.TY_SET; G11.TY_TAGGED;
                  G11.TY_EXTERNAL];
     single_char_ok := G11.valid_single_char |}.

(* tag handlers, implemented identically in harness/h_dump.h *)
Definition h4_data (v : node) : Z :=
  match nval v with VInt n => if (1 <=? n) && (n <=? 1048576) then n else 42 | _ => 42 end.
Definition builtin_handler (h : Z) (v : node) : option node * option bytes :=
  if h =? 0 then (Some v, None)                                        (* identity *)
  else if h =? 1 then (Some (mk (VVector [v]) 0 0), None)              (* wrap in a vector *)
  else if h =? 2 then (None, Some (lit "boom"))                        (* fail with a message *)
  else if h =? 3 then (None, None)                                     (* fail without message *)
  else if h =? 4 then (Some (mk (VExternal 7 (h4_data v)) 0 0), None)  (* external value; data = the operand when it is a small integer *)
  else (Some (mk (VKeyword None (lit "replaced")) 0 0), None).         (* constant *)

(* no external-type callbacks registered *)
Definition no_ext_equal (t : Z) : option (Z -> Z -> bool) := None.
Definition no_ext_hash (t : Z) : option (Z -> Z) := None.

(* stand-in for qsort: insertion sort with the comparator *)
Fixpoint insert_node (c : cfg) (x : node) (l : list node) : list node :=
  match l with
  | [] => [x]
  | y :: t => if compare_nodes c x y <=? 0 then x :: l else y :: insert_node c x t
  end.
Definition isort (c : cfg) (l : list node) : list node := fold_right (insert_node c) [] l.

Fixpoint assoc_tag (l : list (bytes * Z)) (t : bytes) : option Z :=
  match l with
  | [] => None
  | (k, h) :: r => if bytes_eqb k t then Some h else assoc_tag r t
  end.
Definition mk_opts (reg : option (list (bytes * Z))) (mode : Z) (eof : bool) : opts :=
  {| has_registry := match reg with Some _ => true | None => false end;
     lookup_tag := match reg with Some l => assoc_tag l | None => fun _ => None end;
     reader_mode := mode; has_eof_value := eof |}.

(* fuel that always suffices (Proofs: termination): every level of nesting costs at most
   4 units and consumes at least one byte *)
Definition fuel_for (len : N) : nat := 8 + 4 * N.to_nat len.

Definition run_doc (c : cfg) (o : opts) (m : mem) (len : N) : res result :=
  read_doc c o builtin_handler no_ext_equal no_ext_hash (isort c) m len (fuel_for len).
(* the same with an external-type table in force (equality / hash callbacks by type id) *)
Definition run_doc_x (c : cfg) (o : opts) (xe : Z -> option (Z -> Z -> bool)) (xh : Z -> option (Z -> Z)) (m : mem) (len : N) : res result :=
  read_doc c o builtin_handler xe xh (isort c) m len (fuel_for len).
