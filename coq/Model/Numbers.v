(* Model/Numbers.v -- model of number.c: the three-tier int64 converter, the binary GCD, the
   double parser (fast path + strtod fallback) and the literal scanner edn_read_number.
   int64 arithmetic is CHECKED (UB reported), uint64 arithmetic wraps mod 2^64.
   No proofs in this file. *)
From Coq Require Import ZArith NArith List Bool String.
From Coq.Strings Require Import Byte.
From Coq.Floats Require Import SpecFloat.
From Verif Require Import Lanes Common Values Floats Scan.
Import ListNotations.
Local Open Scope Z_scope.

Definition two63 : Z := 9223372036854775808.
Definition two64 : Z := 18446744073709551616.
Definition int64_max : Z := two63 - 1.
Definition int64_min : Z := - two63.
Definition in_i64 (z : Z) : bool := (int64_min <=? z) && (z <=? int64_max).
Definition u64 (z : Z) : Z := z mod two64.

Definition byte_us : byte := "_"%byte.
Definition is_us (b : byte) : bool := Byte.eqb b byte_us.
Definition dval (b : byte) : Z := bz b - 48.                 (* c - '0' *)
Definition is_dig (b : byte) : bool := Scan.is_digit b.

(* ------------------------------------------------------------------ parse_int64_from_buffer *)
Inductive ires := IOk (z : Z) | IOverflow | IUB (site : string).

(* little-endian 64-bit load of 8 bytes (memcpy(&val, chars, 8) on x86-64) *)
Fixpoint le_val (l : list byte) : Z :=
  match l with [] => 0 | b :: t => bz b + 256 * le_val t end.

(* tier 1: at most 3 bytes, radix 10.  Returns (value, consumed-at-least-one-byte) *)
Fixpoint tier1 (e : bool) (l : list byte) (acc : Z) (moved : bool) : Z * bool :=
  match l with
  | [] => (acc, moved)
  | c :: t =>
    if e && is_us c then tier1 e t acc true
    else if is_dig c then tier1 e t (acc * 10 + dval c) true
    else (acc, moved)
  end.

(* scalar tail with cutoff/cutlim; digit function parametrised *)
Fixpoint scalar_digits (e : bool) (dv : byte -> Z) (radix cutoff cutlim : Z) (l : list byte) (v : Z)
  : option Z :=                                     (* None = overflow *)
  match l with
  | [] => Some v
  | c :: t =>
    if e && is_us c then scalar_digits e dv radix cutoff cutlim t v
    else
      let d := dv c in
      if d <? 0 then Some v
      else if (v >? cutoff) || ((v =? cutoff) && (d >? cutlim)) then None
      else scalar_digits e dv radix cutoff cutlim t (u64 (v * radix + d))
  end.

Definition dec_digit (c : byte) : Z := if is_dig c then dval c else -1.

(* tier 2: 8-digit SWAR blocks while at least 8 bytes remain *)
Fixpoint swar_blocks (fuel : nat) (max_val : Z) (l : list byte) (v : Z) : option (list byte * Z) :=
  match fuel with
  | O => Some (l, v)
  | S f =>
    if (8 <=? Z.of_nat (List.length l)) then
      let blk := firstn 8 l in
      if z2b (eight_digits_check (le_val blk)) then
        let eight := eight_digits_value (le_val blk) in
        if v >? Z.quot max_val 100000000 then None
        else
          let nv := u64 (v * 100000000 + eight) in
          if nv <? v then None
          else if nv >? max_val then None
          else swar_blocks f max_val (skipn 8 l) nv
      else Some (l, v)
    else Some (l, v)
  end.

Definition parse_int64 (c : cfg) (ds : list byte) (radix : Z) (neg : bool) : ires :=
  let e := exp c in
  let t1 := if (radix =? 10) && (Z.of_nat (List.length ds) <=? 3) then
              match tier1 e ds 0 false with
              | (v, true) => Some (if neg then - v else v)
              | _ => None
              end
            else None in
  match t1 with
  | Some v => IOk v
  | None =>
    let max_val := if neg then two63 else int64_max in
    let cutoff := Z.quot max_val radix in
    let cutlim := Z.rem max_val radix in
    let r :=
      if radix =? 10 then
        match swar_blocks (S (List.length ds)) max_val ds 0 with
        | None => None
        | Some (rest, v) => scalar_digits e dec_digit 10 cutoff cutlim rest v
        end
      else scalar_digits e (fun ch => digit_value (sgn8 (bz ch)) radix) radix cutoff cutlim ds 0 in
    match r with
    | None => IOverflow
    | Some v => if neg then (if v =? two63 then IOk int64_min else IOk (- v)) else IOk v
    end
  end.

(* ------------------------------------------------------------------ ratio_gcd (uint64) *)
Fixpoint gcd_strip (fuel : nat) (a : Z) : Z :=      (* while ((a & 1) == 0) a >>= 1 *)
  match fuel with O => a | S f => if Z.even a then gcd_strip f (Z.shiftr a 1) else a end.
Fixpoint gcd_common (fuel : nat) (a b sh : Z) : Z * Z * Z :=
  match fuel with
  | O => (a, b, sh)
  | S f => if Z.even (Z.lor a b) then gcd_common f (Z.shiftr a 1) (Z.shiftr b 1) (sh + 1)
           else (a, b, sh)
  end.
Fixpoint gcd_main (fuel : nat) (a b : Z) : option Z :=   (* None = out of fuel *)
  match fuel with
  | O => None
  | S f =>
    let b1 := gcd_strip 64 b in
    let '(a2, b2) := if a >? b1 then (b1, a) else (a, b1) in
    let b3 := u64 (b2 - a2) in
    if b3 =? 0 then Some a2 else gcd_main f a2 b3
  end.
Definition ratio_gcd (sa sb : Z) : option Z :=
  let a := if sa <? 0 then u64 (0 - u64 sa) else u64 sa in
  let b := if sb <? 0 then u64 (0 - u64 sb) else u64 sb in
  if a =? 0 then Some (wrapS 64 b)
  else if b =? 0 then Some (wrapS 64 a)
  else
    let '(a1, b1, sh) := gcd_common 64 a b 0 in
    let a2 := gcd_strip 64 a1 in
    match gcd_main 200 a2 b1 with
    | None => None
    | Some g => Some (wrapS 64 (u64 (Z.shiftl g sh)))
    end.

(* ------------------------------------------------------------------ parse_double_from_buffer *)
Inductive dres := DOk (f : spec_float) | DUB (site : string).

(* digits (and, with the experimental flag, underscores) at the head of l:
   returns (mantissa', count', rest); accumulates only while fewer than 18 digits were seen *)
Fixpoint acc_digits (e : bool) (l : list byte) (mant cnt : Z) : Z * Z * list byte :=
  match l with
  | [] => (mant, cnt, [])
  | c :: t =>
    if e && is_us c then acc_digits e t mant cnt
    else if is_dig c then acc_digits e t (if cnt <? 18 then mant * 10 + dval c else mant) (cnt + 1)
    else (mant, cnt, l)
  end.
(* exponent digits with the 1000 clamp (stops at the clamp) *)
Fixpoint acc_exp (e : bool) (l : list byte) (v : Z) : Z :=
  match l with
  | [] => v
  | c :: t =>
    if e && is_us c then acc_exp e t v
    else if is_dig c then
      let v' := v * 10 + dval c in
      if v' >? 1000 then 1000 else acc_exp e t v'
    else v
  end.

Definition is_byte (c : byte) (s : string) : bool :=
  match s with String a EmptyString => Byte.eqb c (Ascii.byte_of_ascii a) | _ => false end.

(* strtod on text of the shape [sign] digits [. digits] [e [sign] digits]: the longest
   prefix of that shape, value correctly rounded (hypothesis about libc, validated by the
   correspondence run) *)
Fixpoint all_digits (l : list byte) (acc cnt : Z) : Z * Z * list byte :=
  match l with
  | c :: t => if is_dig c then all_digits t (acc * 10 + dval c) (cnt + 1) else (acc, cnt, l)
  | [] => (acc, cnt, [])
  end.
Definition strtod_model (l : list byte) : spec_float :=
  let '(neg, l1) := match l with
                    | c :: t => if is_byte c "-" then (true, t) else if is_byte c "+" then (false, t) else (false, l)
                    | [] => (false, []) end in
  let '(m1, c1, l2) := all_digits l1 0 0 in
  let '(m2, c2, l3) := match l2 with
                       | c :: t => if is_byte c "." then
                                     let '(mm, cc, r) := all_digits t m1 0 in (mm, cc, r)
                                   else (m1, 0, l2)
                       | [] => (m1, 0, []) end in
  if (c1 + c2 =? 0) then S754_zero false     (* no digits: strtod returns 0 (cannot happen here) *)
  else
    let ex := match l3 with
              | c :: t =>
                if is_byte c "e" || is_byte c "E" then
                  let '(eneg, t') := match t with
                                     | s :: t2 => if is_byte s "-" then (true, t2)
                                                  else if is_byte s "+" then (false, t2) else (false, t)
                                     | [] => (false, []) end in
                  let '(ev, ec, _) := all_digits t' 0 0 in
                  if ec =? 0 then 0 else if eneg then - ev else ev
                else 0
              | [] => 0 end in
    dec2fl neg m2 (ex - c2) (c1 + c2).

Definition parse_double (c : cfg) (bs : list byte) : dres :=
  let e := exp c in
  let '(neg, l1) := match bs with
                    | ch :: t => if is_byte ch "-" then (true, t) else if is_byte ch "+" then (false, t) else (false, bs)
                    | [] => (false, []) end in
  let '(m1, cnt1, l2) := acc_digits e l1 0 0 in
  let '(m2, fr, l3) := match l2 with
                       | ch :: t => if is_byte ch "." then
                                      let '(mm, cc, r) := acc_digits e t m1 cnt1 in (mm, cc - cnt1, r)
                                    else (m1, 0, l2)
                       | [] => (m1, 0, []) end in
  let exponent0 := - fr in
  let digit_count := cnt1 + fr in
  let exponent :=
      match l3 with
      | ch :: t =>
        if is_byte ch "e" || is_byte ch "E" then
          let '(eneg, t') := match t with
                             | s :: t2 => if is_byte s "-" then (true, t2)
                                          else if is_byte s "+" then (false, t2) else (false, t)
                             | [] => (false, []) end in
          let ev := acc_exp e t' 0 in
          exponent0 + (if eneg then - ev else ev)
        else exponent0
      | [] => exponent0 end in
  if negb (in_i64 m2) then DUB "number.c:mantissa"
  else if (digit_count <=? 15) && fast_path_ok m2 exponent then DOk (fast_path m2 exponent neg)
  else if e then DOk (strtod_model (filter (fun ch => negb (is_us ch)) bs))   (* cleaned copy *)
  else DOk (strtod_model bs).

(* ------------------------------------------------------------------ edn_read_number *)
(* outcome of the literal scanner *)
Inductive nres :=
| NVal (v : value) (newcur : N)        (* value built; current = newcur (= source_end) *)
| NErr (errcur : N)                    (* EDN_ERROR_INVALID_NUMBER, range start..errcur,
                                          parser->current left at errcur *)
| NUB (site : string).

Section ReadNumber.
Variable c : cfg.
Variable m : mem.
Variable e : N.                        (* parser->end *)

Local Open Scope N_scope.
Definition nul : byte := "000"%byte.
Definition peek (p : N) : byte := if p <? e then m p else nul.
Definition adv (p : N) : N := if p <? e then p + 1 else p.
Definition sub (a b : N) : list byte := slice m a (N.to_nat (b - a)).   (* bytes [a,b) *)

Definition is_c (b : byte) (s : string) : bool := is_byte b s.
Definition not_nul_nor_delim (b : byte) : bool := negb (Byte.eqb b nul) && negb (is_delim b).

(* generic digit loop:  while (c != 0 && !is_delimiter(c)) { digit -> advance;
   '_' (experimental) -> advance, then [strict] next must be digit or '_' else error;
   otherwise break }.  Returns inl cur | inr errcur *)
Fixpoint digit_loop (fuel : nat) (isd : byte -> bool) (strict : bool) (p : N) : N + N :=
  match fuel with
  | O => inl p
  | S f =>
    let ch := peek p in
    if not_nul_nor_delim ch then
      if isd ch then digit_loop f isd strict (adv p)
      else if exp c && is_us ch then
        let p' := adv p in
        let ch' := peek p' in
        if strict && negb (is_us ch') && negb (isd ch') then inr p'
        else digit_loop f isd strict p'
      else inl p
    else inl p
  end.

(* while (digit || [exp] '_') advance *)
Fixpoint frac_loop (fuel : nat) (p : N) : N :=
  match fuel with
  | O => p
  | S f => let ch := peek p in
           if is_dig ch || (exp c && is_us ch) then frac_loop f (adv p) else p
  end.
(* while (digit) advance   (bounded by end through peek) *)
Fixpoint plain_digits (fuel : nat) (p : N) : N :=
  match fuel with
  | O => p
  | S f => if is_dig (peek p) then plain_digits f (adv p) else p
  end.
(* while (c == '0') advance *)
Fixpoint skip_zeros (fuel : nat) (p : N) : N :=
  match fuel with
  | O => p
  | S f => if is_c (peek p) "0" then skip_zeros f (adv p) else p
  end.

Definition fuel_of (p : N) : nat := S (N.to_nat (e - p)).

(* validate_number_delimiter at cur *)
Definition delim_ok (p : N) : bool := if p <? e then numdelim (bz (m p)) else true.

Definition finish (v : value) (p : N) : nres := if delim_ok p then NVal v p else NErr p.

Definition int_or_big (ds_start ds_end : N) (radix : Z) (neg : bool) : value + string :=
  match parse_int64 c (sub ds_start ds_end) radix neg with
  | IOk z => inl (VInt z)
  | IOverflow => inl (VBigInt neg radix (sub ds_start ds_end))
  | IUB s => inr s
  end.

(* shared tail of the radix / hex / octal sections.  [nsuffix]: the section accepts an N
   suffix.  p = cursor after the digit loop (digits_end) *)
Definition radix_tail (start ds_start p : N) (radix : Z) (neg : bool) (nsuffix : bool) : nres :=
  let ch := peek p in
  let '(isN, isM, p1, ch1) :=
      if nsuffix && is_c ch "N" then (true, false, adv p, peek (adv p))
      else if is_c ch "M" then (false, true, adv p, (if nsuffix then peek (adv p) else ch))
      else (false, false, p, ch) in
  if is_c ch1 "/" then NErr p1
  else if isM then finish (VBigDec neg (sub ds_start p)) p1
  else if isN then finish (VBigInt neg radix (sub ds_start p)) p1
  else match int_or_big ds_start p radix neg with
       | inl v => finish v p1
       | inr s => NUB s
       end.

Definition in_radix (radix : Z) (b : byte) : bool := digit_value (sgn8 (bz b)) radix >=? 0.

(* ratio denominator after '/', cursor p at the first denominator byte.
   Returns inl (denom_start, denom_end) | inr errcur *)
Definition ratio_denominator (p : N) : (N * N) + N :=
  let ch := peek p in
  if (e <=? p) || negb (is_dig ch) then inr p
  else if is_c ch "0" then inr (adv p)
  else
    let q := plain_digits (fuel_of p) p in
    let ch2 := peek q in
    if is_c ch2 "N" || is_c ch2 "M" || is_c ch2 "/" then inr q
    else if (q <? e) && negb (is_delim ch2) then inr q
    else inl (p, q).

(* ---- sections of edn_read_number shared by several entry points (goto targets in the C code).
   start = token start, ds0 = digits_start, neg = sign seen *)
Definition suffix_section (start ds0 : N) (neg : bool) (p : N) (hasdp hasexp : bool) : nres :=
        (* p = digits_end *)
        let ch := peek p in
        if exp c && (is_c ch "N" || is_c ch "M" || is_c ch "/") && (ds0 <? p) && is_us (m (p - 1))
        then NErr p
        else if is_c ch "N" && negb hasdp && negb hasexp then
          finish (VBigInt neg 10 (sub ds0 p)) (adv p)
        else if is_c ch "M" then finish (VBigDec neg (sub ds0 p)) (adv p)
        else if clj c && is_c ch "/" && negb hasdp && negb hasexp then
          match ratio_denominator (adv p) with
          | inr ec => NErr ec
          | inl (dstart, dend) =>
            match parse_int64 c (sub ds0 p) 10 neg, parse_int64 c (sub dstart dend) 10 false with
            | IUB s, _ | _, IUB s => NUB s
            | IOk nu, IOk de =>
              match ratio_gcd nu de with
              | None => NUB "number.c:ratio_gcd does not terminate"
              | Some g =>
                let '(nu', de') := if (g >? 1)%Z then (Z.quot nu g, Z.quot de g) else (nu, de) in
                if (nu' =? 0)%Z then NVal (VInt 0) dend            (* no delimiter check *)
                else if (de' =? 1)%Z then NVal (VInt nu') dend
                else finish (VRatio nu' de') dend
              end
            | _, IOk de =>
              if (de =? 1)%Z then finish (VBigInt neg 10 (sub ds0 p)) dend
              else finish (VBigRatio neg (sub ds0 p) (sub dstart dend)) dend
            | _, _ => finish (VBigRatio neg (sub ds0 p) (sub dstart dend)) dend
            end
          end
        else if hasdp || hasexp then
          match parse_double c (sub start p) with
          | DOk f => finish (VFloat f) p
          | DUB s => NUB s
          end
        else match int_or_big ds0 p 10 neg with
             | inl v => finish v p
             | inr s => NUB s
             end.
Definition exponent_section (start ds0 : N) (neg : bool) (p : N) (hasdp : bool) (from_goto : bool) : nres :=
        (* p at 'e'/'E' *)
        if negb from_goto && exp c && (ds0 <? p) && is_us (m (p - 1)) then NErr p
        else
          let p2 := adv p in
          let ch := peek p2 in
          let p3 := if is_c ch "+" || is_c ch "-" then adv p2 else p2 in
          if negb (is_dig (peek p3)) then NErr p3
          else suffix_section start ds0 neg (frac_loop (fuel_of p3) p3) hasdp true.
Definition after_frac (start ds0 : N) (neg : bool) (q : N) (dp : bool) : nres :=
            let ch2 := peek q in
            if is_c ch2 "e" || is_c ch2 "E" then exponent_section start ds0 neg q dp false
            else suffix_section start ds0 neg q dp false.
Definition after_int_digits (start ds0 : N) (neg : bool) (p : N) (hasdp : bool) : nres :=
        (* p after integer digits; hasdp already true when entered at the '.' by goto *)
        let ch := peek p in
        if is_c ch "." then
          let p2 := adv p in
          if exp c && is_us (peek p2) then NErr p2
          else after_frac start ds0 neg (frac_loop (fuel_of p2) p2) true
        else after_frac start ds0 neg p hasdp.
Definition zero_tail (start ds0 : N) (neg : bool) (p : N) : nres :=
          let ch := peek p in
          if is_c ch "." then after_int_digits start ds0 neg p true
          else if is_c ch "N" then finish (VBigInt neg 10 [("0"%byte)]) (adv p)
          else if is_c ch "M" then finish (VBigDec neg [("0"%byte)]) (adv p)
          else if is_c ch "e" || is_c ch "E" then exponent_section start ds0 neg p false true
          else if clj c && is_c ch "/" then
            match ratio_denominator (adv p) with
            | inr ec => NErr ec
            | inl (_, dend) => NVal (VInt 0) dend
            end
          else finish (VInt 0) p.

Definition read_number (start : N) : nres :=
  let c0 := peek start in
  let '(neg, p1) := if is_c c0 "-" then (true, adv start) else if is_c c0 "+" then (false, adv start)
                    else (false, start) in
  let ds0 := p1 in                                  (* digits_start *)
  let c1 := peek p1 in
  (* Clojure: NrDDD radix prefix *)
  let radix_branch : option nres :=
      if clj c && is_dig c1 then
        let r_pos := plain_digits (fuel_of p1) p1 in
        if (r_pos <? e) && (is_c (m r_pos) "r" || is_c (m r_pos) "R") && (p1 <? r_pos) then
          let rv := fold_left (fun acc b => if (acc <=? 36)%Z then (acc * 10 + dval b)%Z else acc)
                              (sub p1 r_pos) 0%Z in
          if ((2 <=? rv) && (rv <=? 36))%Z then
            let ds := r_pos + 1 in
            if negb (in_radix rv (peek ds)) then Some (NErr ds)
            else match digit_loop (fuel_of ds) (in_radix rv) true ds with
                 | inr ec => Some (NErr ec)
                 | inl p => Some (radix_tail start ds p rv neg false)
                 end
          else Some (NErr p1)
        else None
      else None in
  match radix_branch with
  | Some r => r
  | None =>
    if is_c c1 "0" then
      let p2 := adv p1 in
      if clj c then
        let p3 := skip_zeros (fuel_of p2) p2 in
        let ch := peek p3 in
        if is_c ch "x" || is_c ch "X" then
          let ds := adv p3 in
          if negb (in_radix 16 (peek ds)) then NErr ds
          else match digit_loop (fuel_of ds) (in_radix 16) false ds with
               | inr ec => NErr ec
               | inl p => radix_tail start ds p 16 neg true
               end
        else if (49 <=? bz ch)%Z && (bz ch <=? 55)%Z then
          (* octal: digits_start stays at the first zero *)
          match digit_loop (fuel_of p3) (in_radix 8) false p3 with
          | inr ec => NErr ec
          | inl p => radix_tail start ds0 p 8 neg true
          end
        else if is_c ch "8" || is_c ch "9" then NErr p3
        else zero_tail start ds0 neg p3
      else if is_dig (peek p2) then NErr p2
      else zero_tail start ds0 neg p2
    else
      match digit_loop (fuel_of p1) is_dig true p1 with
      | inr ec => NErr ec
      | inl p => after_int_digits start ds0 neg p false
      end
  end.
End ReadNumber.
