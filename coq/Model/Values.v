(* Model/Values.v -- the value tree, parser state and result types of the reader model.
   No proofs in this file. *)
From Coq Require Import ZArith NArith List Bool String.
From Coq.Strings Require Import Byte.
From Coq.Floats Require Import SpecFloat.
From Verif Require Import Lanes Common.
Import ListNotations.

Definition bytes := list byte.

Fixpoint bytes_eqb (a b : bytes) : bool :=
  match a, b with
  | [], [] => true
  | x :: a', y :: b' => Byte.eqb x y && bytes_eqb a' b'
  | _, _ => false
  end.

(* feature flags and the flag-dependent generated items *)
Record cfg := {
  clj : bool;                    (* EDN_ENABLE_CLOJURE_EXTENSION *)
  exp : bool;                    (* EDN_ENABLE_EXPERIMENTAL_EXTENSION *)
  dispatch : list Z;             (* char_dispatch_table, as compiled *)
  ct_ident : Z; ct_string : Z; ct_char : Z; ct_list : Z; ct_vector : Z; ct_map : Z;
  ct_hash : Z; ct_sign : Z; ct_digit : Z; ct_delim : Z; ct_meta : Z;
  type_tag : list Z;             (* numbering of edn_type_t in TYPE order below *)
  single_char_ok : Z -> bool;    (* character.c is_valid_single_char *)
}.

(* value kinds, in the order of the TY_* list of the generated files *)
Inductive kind :=
| KNil | KBool | KInt | KBigInt | KFloat | KBigDec | KRatio | KBigRatio | KChar | KString
| KSymbol | KKeyword | KList | KVector | KMap | KSet | KTagged | KExternal.

Definition kind_index (k : kind) : nat :=
  match k with
  | KNil => 0 | KBool => 1 | KInt => 2 | KBigInt => 3 | KFloat => 4 | KBigDec => 5
  | KRatio => 6 | KBigRatio => 7 | KChar => 8 | KString => 9 | KSymbol => 10 | KKeyword => 11
  | KList => 12 | KVector => 13 | KMap => 14 | KSet => 15 | KTagged => 16 | KExternal => 17
  end%nat.

Inductive value :=
| VNil
| VBool (b : bool)
| VInt (z : Z)
| VBigInt (neg : bool) (radix : Z) (digits : bytes)      (* digit text as in the input *)
| VFloat (f : spec_float)
| VBigDec (neg : bool) (digits : bytes)
| VRatio (n d : Z)
| VBigRatio (neg : bool) (n d : bytes)
| VChar (cp : Z)
| VString (raw : bytes) (esc : bool) (pre : option bytes)  (* pre: text block, already decoded *)
| VSymbol (ns : option bytes) (name : bytes)
| VKeyword (ns : option bytes) (name : bytes)
| VList (xs : list node)
| VVector (xs : list node)
| VMap (ks : list node) (vs : list node)
| VSet (xs : list node)
| VTagged (tag : bytes) (v : node)
| VExternal (type_id : Z) (data : Z)
with node :=
| Node (v : value) (rs re : N) (meta : option node) (chash : Z).
(* rs/re: source range; meta: attached metadata map; chash: cached hash, 0 = not computed *)

Definition nval (n : node) : value := match n with Node v _ _ _ _ => v end.
Definition nrs (n : node) : N := match n with Node _ s _ _ _ => s end.
Definition nre (n : node) : N := match n with Node _ _ e _ _ => e end.
Definition nmeta (n : node) : option node := match n with Node _ _ _ m _ => m end.
Definition nhash (n : node) : Z := match n with Node _ _ _ _ h => h end.
Definition mk (v : value) (s e : N) : node := Node v s e None 0%Z.
Definition set_rs (n : node) (s : N) : node := match n with Node v _ e m h => Node v s e m h end.
Definition set_range (n : node) (s e : N) : node := match n with Node v _ _ m h => Node v s e m h end.
Definition set_meta (n : node) (mm : option node) : node :=
  match n with Node v s e _ h => Node v s e mm h end.
Definition set_hash (n : node) (h : Z) : node := match n with Node v s e m _ => Node v s e m h end.

Definition kind_of (v : value) : kind :=
  match v with
  | VNil => KNil | VBool _ => KBool | VInt _ => KInt | VBigInt _ _ _ => KBigInt
  | VFloat _ => KFloat | VBigDec _ _ => KBigDec | VRatio _ _ => KRatio
  | VBigRatio _ _ _ => KBigRatio | VChar _ => KChar | VString _ _ _ => KString
  | VSymbol _ _ => KSymbol | VKeyword _ _ => KKeyword | VList _ => KList | VVector _ => KVector
  | VMap _ _ => KMap | VSet _ => KSet | VTagged _ _ => KTagged | VExternal _ _ => KExternal
  end.
Definition type_of (c : cfg) (v : value) : Z := nth (kind_index (kind_of v)) (type_tag c) (-1)%Z.

(* error classes, numbered as in the generated E_* constants *)
Inductive ecode :=
| EOk | ESyntax | EEof | EUnterminated | EOom | ENumber | EString | ECharacter | EDiscard
| EUnmatched | EUnknownTag | EDupKey | EDupElem.

(* error message: a static library text, or the text a tag handler supplied *)
Inductive emsg := MNone | MStatic | MHandler (text : option bytes).

(* a tag-handler invocation, as logged (ghost) *)
Record call := { call_tag : bytes; call_arg : node }.

(* parser state (edn_parser_t) plus ghost components *)
Record pst := {
  cur : N;            (* parser->current, as an offset *)
  depth : N;
  discard : bool;
  err : ecode;
  msg : emsg;
  es : option N;      (* error_start, None = NULL *)
  ee : option N;
  (* ghost: never read by the model's control flow *)
  calls : list call;  (* handler invocations, most recent first *)
  nest : nat;         (* current recursion depth of read_value *)
  max_nest : nat;
  starts : list N;    (* offsets at which a form read began, most recent first *)
  ext_used : list string;   (* extension-only branches taken *)
}.

Definition with_cur (s : pst) (c : N) : pst :=
  {| cur := c; depth := depth s; discard := discard s; err := err s; msg := msg s; es := es s;
     ee := ee s; calls := calls s; nest := nest s; max_nest := max_nest s; starts := starts s;
     ext_used := ext_used s |}.
Definition with_depth (s : pst) (d : N) : pst :=
  {| cur := cur s; depth := d; discard := discard s; err := err s; msg := msg s; es := es s;
     ee := ee s; calls := calls s; nest := nest s; max_nest := max_nest s; starts := starts s;
     ext_used := ext_used s |}.
Definition with_discard (s : pst) (d : bool) : pst :=
  {| cur := cur s; depth := depth s; discard := d; err := err s; msg := msg s; es := es s;
     ee := ee s; calls := calls s; nest := nest s; max_nest := max_nest s; starts := starts s;
     ext_used := ext_used s |}.
(* set error code + message, leave the range alone *)
Definition with_err (s : pst) (c : ecode) (m : emsg) : pst :=
  {| cur := cur s; depth := depth s; discard := discard s; err := c; msg := m; es := es s;
     ee := ee s; calls := calls s; nest := nest s; max_nest := max_nest s; starts := starts s;
     ext_used := ext_used s |}.
(* set error code + message + range *)
Definition with_error (s : pst) (c : ecode) (m : emsg) (a b : N) : pst :=
  {| cur := cur s; depth := depth s; discard := discard s; err := c; msg := m; es := Some a;
     ee := Some b; calls := calls s; nest := nest s; max_nest := max_nest s; starts := starts s;
     ext_used := ext_used s |}.
Definition with_call (s : pst) (c : call) : pst :=
  {| cur := cur s; depth := depth s; discard := discard s; err := err s; msg := msg s; es := es s;
     ee := ee s; calls := c :: calls s; nest := nest s; max_nest := max_nest s; starts := starts s;
     ext_used := ext_used s |}.
Definition enter (s : pst) : pst :=
  {| cur := cur s; depth := depth s; discard := discard s; err := err s; msg := msg s; es := es s;
     ee := ee s; calls := calls s; nest := S (nest s); max_nest := Nat.max (max_nest s) (S (nest s));
     starts := starts s; ext_used := ext_used s |}.
Definition leave (s : pst) : pst :=
  {| cur := cur s; depth := depth s; discard := discard s; err := err s; msg := msg s; es := es s;
     ee := ee s; calls := calls s; nest := Nat.pred (nest s); max_nest := max_nest s;
     starts := starts s; ext_used := ext_used s |}.
Definition with_start (s : pst) (p : N) : pst :=
  {| cur := cur s; depth := depth s; discard := discard s; err := err s; msg := msg s; es := es s;
     ee := ee s; calls := calls s; nest := nest s; max_nest := max_nest s; starts := p :: starts s;
     ext_used := ext_used s |}.
Definition with_ext (s : pst) (f : string) : pst :=
  {| cur := cur s; depth := depth s; discard := discard s; err := err s; msg := msg s; es := es s;
     ee := ee s; calls := calls s; nest := nest s; max_nest := max_nest s; starts := starts s;
     ext_used := f :: ext_used s |}.

Definition init_pst : pst :=
  {| cur := 0%N; depth := 0%N; discard := false; err := EOk; msg := MNone; es := None; ee := None;
     calls := []; nest := O; max_nest := O; starts := []; ext_used := [] |}.

(* outcome of running a piece of the reader *)
Inductive res (A : Type) :=
| Ret (a : A) (s : pst)      (* normal return; an error, if any, is inside s *)
| UBx (site : string)        (* undefined behaviour would execute here *)
| OOBx (site : string)       (* an input byte outside [0,len) would be read here *)
| OutOfFuel.
Arguments Ret {A}. Arguments UBx {A}. Arguments OOBx {A}. Arguments OutOfFuel {A}.

(* reader options *)
Record opts := {
  has_registry : bool;
  lookup_tag : bytes -> option Z;       (* registered handler id for a tag *)
  reader_mode : Z;                      (* READER_PASSTHROUGH / UNWRAP / ERROR *)
  has_eof_value : bool;
}.

(* final result (edn_result_t) *)
Record result := {
  r_value : option node;
  r_eof : bool;                         (* value is the caller's eof_value *)
  r_err : ecode;
  r_msg : emsg;
  r_start : N * N * N;                  (* offset, line, column *)
  r_end : N * N * N;
  r_state : pst;                        (* final parser state (ghost parts) *)
}.
