(* Model/Tokens.v -- models of string.c (read_string, escape decoder, edn_string_get),
   identifier.c, character.c, symbolic.c.  Each token reader takes the parser state and
   returns the value (or None) with the new state, as the C functions do.  No proofs. *)
From Coq Require Import ZArith NArith List Bool String.
From Coq.Strings Require Import Byte.
From Coq.Floats Require Import SpecFloat.
From Verif Require Import Lanes Common Values Floats Scan Numbers.
Import ListNotations.
Local Open Scope string_scope.
Local Open Scope list_scope.
Local Open Scope N_scope.

Definition lit (s : string) : bytes := list_byte_of_string s.

(* ------------------------------------------------------------------ escapes (string.c) *)
Definition hexv (b : byte) : option Z :=
  let z := bz b in
  if ((48 <=? z) && (z <=? 57))%Z then Some (z - 48)%Z
  else if ((97 <=? z) && (z <=? 102))%Z then Some (z - 87)%Z
  else if ((65 <=? z) && (z <=? 70))%Z then Some (z - 55)%Z
  else None.
Definition byte_of_Z (z : Z) : byte :=
  match Byte.of_N (Z.to_N (z mod 256)) with Some b => b | None => "000"%byte end.
Definition is_oct (b : byte) : bool := ((48 <=? bz b) && (bz b <=? 55))%Z.

Definition utf8_3 (cp : Z) : option bytes :=
  if (cp <=? 127)%Z then Some [byte_of_Z cp]
  else if (cp <=? 2047)%Z then
    Some [byte_of_Z (Z.lor 192 (Z.shiftr cp 6)); byte_of_Z (Z.lor 128 (Z.land cp 63))]
  else if ((55296 <=? cp) && (cp <=? 57343))%Z then None
  else Some [byte_of_Z (Z.lor 224 (Z.shiftr cp 12));
             byte_of_Z (Z.lor 128 (Z.land (Z.shiftr cp 6) 63));
             byte_of_Z (Z.lor 128 (Z.land cp 63))].

(* decode_escape_sequence: l starts just after the backslash.  Some (out, rest) | None *)
Definition decode_escape (c : cfg) (l : bytes) : option (bytes * bytes) :=
  match l with
  | [] => None
  | ch :: t =>
    if is_byte ch """" then Some ([ch], t)
    else if is_byte ch "\" then Some ([ch], t)
    else if is_byte ch "n" then Some (["010"%byte], t)
    else if is_byte ch "t" then Some (["009"%byte], t)
    else if is_byte ch "r" then Some (["013"%byte], t)
    else if negb (clj c) then None
    else if is_byte ch "f" then Some (["012"%byte], t)
    else if is_byte ch "b" then Some (["008"%byte], t)
    else if is_byte ch "u" then
      match t with
      | h1 :: h2 :: h3 :: h4 :: t' =>
        match hexv h1, hexv h2, hexv h3, hexv h4 with
        | Some a, Some b, Some c', Some d =>
          match utf8_3 (((a * 16 + b) * 16 + c') * 16 + d)%Z with
          | Some o => Some (o, t')
          | None => None
          end
        | _, _, _, _ => None
        end
      | _ => None
      end
    else if is_oct ch then
      let v0 := (bz ch - 48)%Z in
      match t with
      | d1 :: t1 =>
        if is_oct d1 && ((v0 * 8 + (bz d1 - 48)) <=? 255)%Z then
          let v1 := (v0 * 8 + (bz d1 - 48))%Z in
          match t1 with
          | d2 :: t2 =>
            if is_oct d2 && ((v1 * 8 + (bz d2 - 48)) <=? 255)%Z
            then Some ([byte_of_Z (v1 * 8 + (bz d2 - 48))], t2)
            else Some ([byte_of_Z v1], t1)
          | [] => Some ([byte_of_Z v1], t1)
          end
        else Some ([byte_of_Z v0], t)
      | [] => Some ([byte_of_Z v0], t)
      end
    else None
  end.

(* edn_decode_string *)
Fixpoint decode_string (fuel : nat) (c : cfg) (l : bytes) : option bytes :=
  match fuel with
  | O => None
  | S f =>
    match l with
    | [] => Some []
    | ch :: t =>
      if is_bslash ch then
        match decode_escape c t with
        | Some (o, rest) => match decode_string f c rest with Some r => Some (o ++ r) | None => None end
        | None => None
        end
      else match decode_string f c t with Some r => Some (ch :: r) | None => None end
    end
  end.
Definition decode (c : cfg) (l : bytes) : option bytes := decode_string (S (List.length l)) c l.

Fixpoint c_strlen (l : bytes) : nat :=
  match l with [] => O | b :: t => if Byte.eqb b "000"%byte then O else S (c_strlen t) end.

(* edn_string_get on a string value: Some (bytes of the returned buffer up to the reported
   length, reported length) or None for NULL.  The buffer is always NUL-terminated after its
   full decoded content; the reported length is what the caller is told. *)
Definition string_get (c : cfg) (v : value) : option (bytes * N) :=
  match v with
  | VString raw esc pre =>
    if negb esc then Some (raw, N.of_nat (List.length raw))
    else
      match (match pre with Some d => Some d | None => decode c raw end) with
      | None => None
      | Some d => Some (firstn (c_strlen d) d, N.of_nat (c_strlen d))
      end
  | _ => None
  end.

(* ------------------------------------------------------------------ token readers *)
Section Tok.
Variable c : cfg.
Variable m : mem.
Variable e : N.

Definition subm (a b : N) : bytes := slice m a (N.to_nat (b - a)).
Definition fail (s : pst) (code : ecode) (a b : N) : option node * pst :=
  (None, with_error s code MStatic a b).

(* string.c edn_read_string, ordinary literal part *)
Definition read_plain_string (s : pst) : res (option node) :=
  let start := cur s in
  match find_quote m (start + 1) e with
  | None => let '(v, s') := fail s EString start e in Ret v s'
  | Some (q, flag) =>
    Ret (Some (mk (VString (subm (start + 1) q) flag None) start (q + 1))) (with_cur s (q + 1))
  end.

(* identifier.c scan_identifier post-processing: Some (len, ns range, name range) *)
Definition split_identifier (start : N) : option (N * option (N * N) * (N * N)) :=
  match scan_identifier m start e with
  | None => None
  | Some (p, slash) =>
    if p =? start then None
    else
      let len := p - start in
      match slash with
      | Some sl =>
        if len =? 1 then Some (len, None, (start, 1))
        else if sl =? start then None
        else if sl =? p - 1 then None
        else Some (len, Some (start, sl - start), (sl + 1, p - (sl + 1)))
      | None => Some (len, None, (start, len))
      end
  end.

Definition read_identifier (s : pst) : res (option node) :=
  let start := cur s in
  match split_identifier start with
  | None => let '(v, s') := fail s ESyntax start start in Ret v s'
  | Some (len, ns, (nm_off, nm_len)) =>
    let p := start + len in
    let s1 := with_cur s p in
    let name := subm nm_off (nm_off + nm_len) in
    match ns with
    | None =>
      if is_colon (m nm_off) then
        if nm_len - 1 =? 0 then let '(v, s') := fail s1 ESyntax start p in Ret v s'
        else if is_colon (m (nm_off + 1)) then let '(v, s') := fail s1 ESyntax start p in Ret v s'
        else Ret (Some (mk (VKeyword None (subm (nm_off + 1) (nm_off + nm_len))) start p)) s1
      else if bytes_eqb name (lit "nil") then Ret (Some (mk VNil start p)) s1
      else if bytes_eqb name (lit "true") then Ret (Some (mk (VBool true) start p)) s1
      else if bytes_eqb name (lit "false") then Ret (Some (mk (VBool false) start p)) s1
      else Ret (Some (mk (VSymbol None name) start p)) s1
    | Some (ns_off, ns_len) =>
      if is_colon (m ns_off) then
        if ns_len - 1 =? 0 then let '(v, s') := fail s1 ESyntax start p in Ret v s'
        else if is_colon (m (ns_off + 1)) then let '(v, s') := fail s1 ESyntax start p in Ret v s'
        else Ret (Some (mk (VKeyword (Some (subm (ns_off + 1) (ns_off + ns_len))) name) start p)) s1
      else Ret (Some (mk (VSymbol (Some (subm ns_off (ns_off + ns_len))) name) start p)) s1
    end
  end.

(* character.c *)
Definition match_at (p : N) (w : bytes) : bool :=
  (p + N.of_nat (List.length w) <=? e) && bytes_eqb (subm p (p + N.of_nat (List.length w))) w.

(* parse_unicode_escape: Some (codepoint, digits consumed) *)
Fixpoint hex_run (fuel : nat) (p : N) (acc : Z) (n : N) : Z * N :=
  match fuel with
  | O => (acc, n)
  | S f => if p <? e then
             match hexv (m p) with
             | Some d => hex_run f (p + 1) (Z.lor (Z.shiftl acc 4) d) (n + 1)
             | None => (acc, n)
             end
           else (acc, n)
  end.
Definition unicode_escape (p : N) : option (Z * N) :=
  if e <? p + 4 then None
  else
    let '(v, n) := hex_run (if exp c then 6%nat else 4%nat) p 0%Z 0 in
    if n <? 4 then None else Some (v, n).

(* parse_octal_escape (Clojure): up to 3 octal digits *)
Fixpoint oct_run (fuel : nat) (p : N) (acc : Z) (n : N) : Z * N * N :=
  match fuel with
  | O => (acc, n, p)
  | S f => if (p <? e) && is_oct (m p) then oct_run f (p + 1) (Z.lor (Z.shiftl acc 3) (bz (m p) - 48)) (n + 1)
           else (acc, n, p)
  end.
Definition octal_escape (p : N) : option (Z * N) :=
  if e <=? p then None
  else
    let '(v, n, q) := oct_run 3 p 0%Z 0 in
    if n =? 0 then None
    else if (q <? e) && (is_byte (m q) "8" || is_byte (m q) "9") then None
    else if (v >? 255)%Z then None
    else Some (v, q).

Definition is_hex (b : byte) : bool := match hexv b with Some _ => true | None => false end.

Definition read_character (s : pst) : res (option node) :=
  let start := cur s in
  let p := start + 1 in
  let bad (b : N) := let '(v, s') := fail s ECharacter start b in Ret v s' in
  if e <=? p then bad p
  else
    let named (w : string) (cp : Z) : option (Z * N) :=
        if match_at p (lit w) then Some (cp, p + N.of_nat (List.length (lit w))) else None in
    let step1 : option (Z * N) + N :=     (* inl (Some (cp, next)) | inl None = fall through | inr errend *)
        match named "newline" 10%Z with Some r => inl (Some r) | None =>
        match named "return" 13%Z with Some r => inl (Some r) | None =>
        match named "space" 32%Z with Some r => inl (Some r) | None =>
        match named "tab" 9%Z with Some r => inl (Some r) | None =>
        match (if clj c then named "formfeed" 12%Z else None) with Some r => inl (Some r) | None =>
        match (if clj c then named "backspace" 8%Z else None) with Some r => inl (Some r) | None =>
          if clj c && is_byte (m p) "o" && (p + 1 <? e) && is_dig (m (p + 1)) then
            match octal_escape (p + 1) with
            | Some (cp, q) => inl (Some (cp, q))
            | None => inr (p + 1)
            end
          else if is_byte (m p) "u" && (p + 1 <? e) && is_hex (m (p + 1)) then
            match unicode_escape (p + 1) with
            | Some (cp, n) => inl (Some (cp, p + 1 + n))
            | None => inr (if p + 1 + 4 <=? e then p + 1 + 4 else e)
            end
          else inl None
        end end end end end end in
    match step1 with
    | inr b => bad b
    | inl r =>
      let r' : (Z * N) + N :=
          match r with
          | Some x => inl x
          | None => if single_char_ok c (bz (m p)) then inl (bz (m p), p + 1) else inr (p + 1)
          end in
      match r' with
      | inr b => bad b
      | inl (cp, q) =>
        if (cp >? 1114111)%Z then bad q
        else if (q <? e) && negb (is_delim (m q)) then bad q
        else Ret (Some (mk (VChar cp) start q)) (with_cur s q)
      end
    end.

(* symbolic.c: ##Inf ##-Inf ##NaN *)
Definition read_symbolic (s : pst) : res (option node) :=
  let start := cur s in
  let p := start + 2 in
  if match_at p (lit "Inf") then
    Ret (Some (mk (VFloat (S754_infinity false)) start (p + 3))) (with_cur s (p + 3))
  else if match_at p (lit "-Inf") then
    Ret (Some (mk (VFloat (S754_infinity true)) start (p + 4))) (with_cur s (p + 4))
  else if match_at p (lit "NaN") then
    Ret (Some (mk (VFloat S754_nan) start (p + 3))) (with_cur s (p + 3))
  else let '(v, s') := fail s ESyntax start e in Ret v s'.

(* number.c edn_read_number wrapped into the parser state *)
Definition read_number_tok (s : pst) : res (option node) :=
  let start := cur s in
  match read_number c m e start with
  | NVal v q => Ret (Some (mk v start q)) (with_cur s q)
  | NErr q => Ret None (with_error (with_cur s q) ENumber MStatic start q)
  | NUB site => UBx site
  end.
End Tok.
