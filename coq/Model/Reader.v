(* Model/Reader.v -- the reader machine: edn_read_value and everything it dispatches to
   (collections, tagged elements, discard, metadata, namespaced maps, text blocks), and the
   top-level edn_read_with_options with error-position computation.  No proofs here. *)
From Coq Require Import ZArith NArith List Bool String.
From Coq.Strings Require Import Byte.
From Coq.Floats Require Import SpecFloat.
From Verif Require Import Lanes Common Values Floats Scan Numbers Equality Tokens.
Import ListNotations.
Local Open Scope string_scope.
Local Open Scope list_scope.
Local Open Scope N_scope.

(* ------------------------------------------------------------------ text blocks (string.c) *)
Record tline := {
  tl_ws : bytes;          (* leading blanks of the line *)
  tl_content : bytes;     (* bytes after the blanks, up to the line end; [] = blank line *)
  tl_newline : bool;
  tl_escaped : bool;      (* contains an escaped triple quote *)
  tl_terminal : bool;
}.
Definition is_blank (b : byte) : bool := is_byte b " " || Byte.eqb b "009"%byte.

Section TextBlock.
Variable m : mem.
Variable e : N.

(* edn_parse_text_block_line from offset p: Some (line, new cursor) | None = EOF inside line *)
Fixpoint tb_blank (fuel : nat) (p : N) : N :=
  match fuel with O => p | S f => if (p <? e) && is_blank (m p) then tb_blank f (p + 1) else p end.
Fixpoint tb_content (fuel : nat) (p : N) (esc : bool) : option (N * bool * bool * N) :=
  (* Some (content end, escaped, terminal, new cursor) *)
  match fuel with
  | O => None
  | S f =>
    if p <? e then
      let ch := m p in
      if is_bslash ch && (p + 3 <? e) && is_quote (m (p + 1)) && is_quote (m (p + 2)) && is_quote (m (p + 3))
      then tb_content f (p + 4) true
      else if is_quote ch && (p + 3 <=? e) && is_quote (m (p + 1)) && is_quote (m (p + 2))
      then Some (p, esc, true, p + 3)
      else if is_lf ch then Some (p, esc, false, p + 1)
      else tb_content f (p + 1) esc
    else None
  end.
Definition tb_line (p : N) : option (tline * N) :=
  let fuel := S (N.to_nat (e - p)) in
  let cs := tb_blank fuel p in
  match tb_content fuel cs false with
  | None => None
  | Some (ce, esc, term, nc) =>
    Some ({| tl_ws := slice m p (N.to_nat (cs - p)); tl_content := slice m cs (N.to_nat (ce - cs));
             tl_newline := negb term; tl_escaped := esc; tl_terminal := term |}, nc)
  end.
Fixpoint tb_lines (fuel : nat) (p : N) (acc : list tline) : (list tline * N) + N :=
  match fuel with
  | O => inl (rev acc, p)
  | S f =>
    if p <? e then
      match tb_line p with
      | None => inr p                      (* EOF inside the line that starts at p *)
      | Some (ln, nc) => if tl_terminal ln then inl (rev (ln :: acc), nc) else tb_lines f nc (ln :: acc)
      end
    else inl (rev acc, p)
  end.
End TextBlock.

Definition ws_prefix_len (l : tline) : N := N.of_nat (List.length (tl_ws l)).
Fixpoint rstrip_blank (l : bytes) : bytes :=
  match l with
  | [] => []
  | b :: t => match rstrip_blank t with
              | [] => if is_blank b then [] else [b]
              | r => b :: r
              end
  end.
(* minimum indentation over lines that have content or are the terminal line;
   None = no such line *)
Definition tb_indent (ls : list tline) : option N :=
  fold_left (fun acc l =>
               if negb (match tl_content l with [] => true | _ => false end) || tl_terminal l then
                 match acc with None => Some (ws_prefix_len l)
                           | Some a => Some (N.min a (ws_prefix_len l)) end
               else acc) ls None.
Fixpoint tb_unescape (fuel : nat) (l : bytes) : bytes :=
  match fuel with
  | O => l
  | S f =>
    match l with
    | a :: b :: c :: d :: t =>
      if is_bslash a && is_quote b && is_quote c && is_quote d then b :: c :: d :: tb_unescape f t
      else a :: tb_unescape f (b :: c :: d :: t)
    | _ => l
    end
  end.
Definition tb_render_line (lwp : N) (l : tline) : bytes :=
  (match tl_content l with
   | [] => []
   | ct =>
     let body := rstrip_blank ct in
     skipn (N.to_nat (N.min lwp (ws_prefix_len l))) (tl_ws l)
     ++ (if tl_escaped l then tb_unescape (S (List.length body)) body else body)
   end) ++ (if tl_newline l then ["010"%byte] else []).
Definition tb_render (ls : list tline) : bytes :=
  let lwp := match tb_indent ls with Some n => n | None => 0 end in
  List.concat (map (tb_render_line lwp) ls).

(* ------------------------------------------------------------------ the reader machine *)
Section Reader.
Variable c : cfg.
Variable o : opts.
Variable handler : Z -> node -> option node * option bytes.   (* tag handlers, by id *)
Variable ext_equal : Z -> option (Z -> Z -> bool).
Variable ext_hash : Z -> option (Z -> Z).
Variable sort : list node -> list node.
Variable m : mem.
Variable e : N.

Definition v_equal := equal c ext_equal.
Definition v_has_dups := has_duplicates c ext_equal ext_hash sort.

Definition err_at (s : pst) (code : ecode) (a b : N) : pst := with_error s code MStatic a b.
Definition is_ok (s : pst) : bool := match err s with EOk => true | _ => false end.
Definition is_eof (s : pst) : bool := match err s with EEof => true | _ => false end.

(* string.c edn_read_string incl. text-block detection *)
Definition read_string (s : pst) : res (option node) :=
  let p := cur s in
  if exp c && (p + 3 <? e) && is_quote (m p) && is_quote (m (p + 1)) && is_quote (m (p + 2))
     && is_lf (m (p + 3)) then
    match tb_lines m e (S (N.to_nat (e - p))) (p + 4) [] with
    | inr lp => Ret None (with_err (with_cur s lp) EString MStatic)   (* error range left NULL *)
    | inl (ls, nc) =>
      if match rev ls with l :: _ => tl_terminal l | [] => false end then
        let body := tb_render ls in
        Ret (Some (mk (VString body (existsb tl_escaped ls) (Some body)) p nc))
            (with_ext (with_cur s nc) "text_block")
      else Ret None (with_error (with_cur s nc) EString MStatic p nc)
    end
  else read_plain_string m e s.

Definition qualify_key (ns : bytes) (k : node) : node :=
  match nval k with
  | VKeyword None nm => mk (VKeyword (Some ns) nm) 0 0
  | VKeyword (Some q) nm => if bytes_eqb q (lit "_") then mk (VKeyword None nm) 0 0 else k
  | VSymbol None nm => mk (VSymbol (Some ns) nm) 0 0
  | VSymbol (Some q) nm => if bytes_eqb q (lit "_") then mk (VSymbol None nm) 0 0 else k
  | _ => k
  end.

(* metadata expansion: annotation -> (keys, values) *)
Definition meta_entries (a : node) : list node * list node :=
  match nval a with
  | VMap ks vs => (ks, vs)
  | VKeyword _ _ => ([a], [mk (VBool true) 0 0])
  | VVector _ => ([mk (VKeyword None (lit "param-tags")) 0 0], [a])
  | _ => ([mk (VKeyword None (lit "tag")) 0 0], [a])
  end.
Definition meta_ok_annotation (v : value) : bool :=
  match v with VMap _ _ | VKeyword _ _ | VString _ _ _ | VSymbol _ _ | VVector _ => true | _ => false end.
Definition meta_ok_target (v : value) : bool :=
  match v with
  | VList _ | VVector _ | VMap _ _ | VSet _ | VTagged _ _ | VSymbol _ _ => true | _ => false
  end.
(* merge: new entries first, then the existing entries whose key equals no new key *)
Definition meta_merge (nk nv ok ov : list node) : list node * list node :=
  let keep := filter (fun kv => negb (existsb (fun k => v_equal (fst kv) k) nk)) (combine ok ov) in
  (nk ++ map fst keep, nv ++ map snd keep).

Definition closer_of (k : kind) : byte :=
  match k with KList => ")"%byte | KVector => "]"%byte | _ => "}"%byte end.

Definition dispatch_of (b : byte) : Z := nthz (dispatch c) (bz b).

(* The eight readers are written with OPEN recursion: each body takes the readers it calls as
   parameters; the fuelled mutual fixpoint below ties the knot.  (Bodies are what the proofs
   reason about.) *)
Definition rdr := pst -> res (option node).

Definition value_body (rv : rdr) (rseq : kind -> N -> rdr) (rmap : pst -> N -> option bytes -> res (option node))
           (rns rtag rmeta : rdr) (s0 : pst) : res (option node) :=
    let s0 := enter s0 in
    let leave_ret (r : res (option node)) : res (option node) :=
        match r with Ret v s => Ret v (leave s) | x => x end in
    leave_ret (
    (* trivia *)
    let pre : option pst :=      (* None = EOF error already decided *)
        if cur s0 <? e then
          if prefilter (bz (m (cur s0))) then
            let q := skip_ws m (cur s0) e in
            if q <? e then Some (with_cur s0 q) else None
          else Some s0
        else None in
    match pre with
    | None =>
      let q := if (cur s0 <? e) then skip_ws m (cur s0) e else cur s0 in
      Ret None (with_err (with_cur s0 q) EEof MStatic)
    | Some s =>
      let s := with_start s (cur s) in
      let p := cur s in
      let ch := m p in
      let d := dispatch_of ch in
      if (d =? ct_string c)%Z then read_string s
      else if (d =? ct_char c)%Z then read_character c m e s
      else if (d =? ct_list c)%Z then rseq KList 1 s
      else if (d =? ct_vector c)%Z then rseq KVector 1 s
      else if (d =? ct_map c)%Z then rmap s p None
      else if (d =? ct_hash c)%Z then
        if (p + 1 <? e) && is_byte (m (p + 1)) "{" then rseq KSet 2 s
        else if (p + 1 <? e) && is_byte (m (p + 1)) "#" then read_symbolic m e s
        else if (p + 1 <? e) && is_byte (m (p + 1)) "_" then
          (* discard.c *)
          let old := discard s in
          match rv (with_discard (with_cur s (p + 2)) true) with
          | Ret dv s1 =>
            let s2 := with_discard s1 old in
            match dv with
            | None =>
              if is_ok s2 then Ret None (err_at s2 EDiscard p (p + 2)) else Ret None s2
            | Some _ => if is_ok s2 then rv s2 else Ret None s2
            end
          | x => x
          end
        else if clj c && (p + 1 <? e) && is_byte (m (p + 1)) ":" then rns s
        else rtag s
      else if (d =? ct_sign c)%Z then
        if (p + 1 <? e) && Scan.is_digit (m (p + 1)) then read_number_tok c m e s
        else read_identifier m e s
      else if (d =? ct_digit c)%Z then read_number_tok c m e s
      else if (d =? ct_delim c)%Z then
        if depth s =? 0 then Ret None (with_err s EUnmatched MStatic)
        else Ret None s
      else if clj c && (d =? ct_meta c)%Z then rmeta s
      else read_identifier m e s
    end).

(* list / vector / set *)
Definition seq_body (relems : pst -> list node -> res (option (list node))) (k : kind) (skip : N) (s : pst)
  : res (option node) :=
    let start := cur s in
    let s1 := with_depth (with_cur s (start + skip)) (depth s + 1) in
    match relems s1 [] with
    | Ret (Some els) s2 =>
      if negb (is_ok s2) then
        let s3 := if is_eof s2 then err_at s2 EUnterminated start (cur s2) else s2 in
        Ret None (with_depth s3 (depth s3 - 1))
      else if e <=? cur s2 then OOBx "collection.c: closing delimiter"
      else if negb (Byte.eqb (m (cur s2)) (closer_of k)) then
        Ret None (with_depth (err_at s2 EUnmatched start (cur s2 + 1)) (depth s2 - 1))
      else
        let s3 := with_depth (with_cur s2 (cur s2 + 1)) (depth s2 - 1) in
        match k with
        | KSet =>
          let '(dup, els') := if (2 <=? List.length els)%nat then v_has_dups els else (false, els) in
          if dup then Ret None (err_at s3 EDupElem start (cur s3))
          else Ret (Some (mk (VSet els') start (cur s3))) s3
        | KVector => Ret (Some (mk (VVector els) start (cur s3))) s3
        | _ => Ret (Some (mk (VList els) start (cur s3))) s3
        end
    | Ret None s2 => Ret None s2
    | UBx x => UBx x | OOBx x => OOBx x | OutOfFuel => OutOfFuel
    end.

(* the element loop shared by list/vector/set: reads until read_value returns NULL *)
Definition elems_body (rv : rdr) (relems : pst -> list node -> res (option (list node))) (s : pst) (acc : list node)
  : res (option (list node)) :=
    match rv s with
    | Ret (Some v) s1 => relems s1 (v :: acc)
    | Ret None s1 => Ret (Some (rev acc)) s1
    | UBx x => UBx x | OOBx x => OOBx x | OutOfFuel => OutOfFuel
    end.

(* collection.c edn_read_map_internal; ns = namespaced-map prefix *)
Definition map_body (rentries : pst -> N -> option bytes -> list node -> list node -> res (option (list node * list node)))
           (s : pst) (start : N) (ns : option bytes) : res (option node) :=
    let s1 := with_depth (with_cur s (cur s + 1)) (depth s + 1) in
    match rentries s1 start ns [] [] with
    | Ret (Some (ks, vs)) s2 =>
      if e <=? cur s2 then Ret None (with_depth (err_at s2 EEof start (cur s2)) (depth s2 - 1))
      else if negb (Byte.eqb (m (cur s2)) "}"%byte) then
        Ret None (with_depth (err_at s2 EUnmatched start (cur s2 + 1)) (depth s2 - 1))
      else
        let s3 := with_depth (with_cur s2 (cur s2 + 1)) (depth s2 - 1) in
        let '(dup, ks') := if (2 <=? List.length ks)%nat then v_has_dups ks else (false, ks) in
        if dup then Ret None (err_at s3 EDupKey start (cur s3))
        else Ret (Some (mk (VMap ks' vs) start (cur s3))) s3
    | Ret None s2 => Ret None s2
    | UBx x => UBx x | OOBx x => OOBx x | OutOfFuel => OutOfFuel
    end.

(* key/value loop of the map reader.  Ret None = the reader already returned NULL with the
   state given (depth already decremented) *)
Definition entries_body (rv : rdr)
           (rentries : pst -> N -> option bytes -> list node -> list node -> res (option (list node * list node)))
           (s : pst) (start : N) (ns : option bytes) (ks vs : list node)
  : res (option (list node * list node)) :=
    match rv s with
    | Ret None s1 =>
      if negb (is_ok s1) then
        let s2 := if is_eof s1 then err_at s1 EUnterminated start (cur s1) else s1 in
        Ret None (with_depth s2 (depth s2 - 1))
      else Ret (Some (rev ks, rev vs)) s1
    | Ret (Some k) s1 =>
      match rv s1 with
      | Ret None s2 =>
        let s3 := if is_ok s2 then err_at s2 ESyntax start (cur s2)
                  else if is_eof s2 then err_at s2 EUnterminated start (cur s2) else s2 in
        Ret None (with_depth s3 (depth s3 - 1))
      | Ret (Some v) s2 =>
        let k' := match ns with Some q => qualify_key q k | None => k end in
        rentries s2 start ns (k' :: ks) (v :: vs)
      | UBx x => UBx x | OOBx x => OOBx x | OutOfFuel => OutOfFuel
      end
    | UBx x => UBx x | OOBx x => OOBx x | OutOfFuel => OutOfFuel
    end.

(* collection.c edn_read_namespaced_map (Clojure) *)
Definition nsmap_body (rv : rdr) (rmap : pst -> N -> option bytes -> res (option node)) (s : pst)
  : res (option node) :=
    let start := cur s in
    match rv (with_cur s (start + 1)) with
    | Ret None s1 => Ret None s1
    | Ret (Some kw) s1 =>
      match nval kw with
      | VKeyword None nm =>
        let q := skip_ws m (cur s1) e in
        let s2 := with_ext (with_cur s1 q) "nsmap" in
        if (e <=? q) || negb (is_byte (m q) "{") then Ret None (err_at s2 ESyntax start q)
        else rmap s2 start (Some nm)
      | _ => Ret None (err_at s1 ESyntax start (cur s1))
      end
    | x => x
    end.

(* tagged.c *)
Definition tagged_body (rv : rdr) (s : pst) : res (option node) :=
    let start := cur s in
    let s1 := with_cur s (start + 1) in           (* depth incremented; restored on every exit *)
    let d0 := depth s in
    if e <=? cur s1 then Ret None (err_at s1 EEof start (cur s1))
    else if tag_adjacent_ws (bz (m (cur s1))) then Ret None (err_at s1 ESyntax start (cur s1))
    else
      let tag_start := cur s1 in
      match read_identifier m e s1 with
      | Ret None s2 => Ret None s2
      | Ret (Some tv) s2 =>
        match nval tv with
        | VSymbol _ _ =>
          let tag := slice m tag_start (N.to_nat (cur s2 - tag_start)) in
          match rv (with_depth s2 (d0 + 1)) with
          | Ret None s3 =>
            let s4 := with_depth s3 d0 in
            if is_ok s4 then Ret None (err_at s4 EEof start (cur s4)) else Ret None s4
          | Ret (Some v) s3 =>
            let s4 := with_depth s3 d0 in
            let plain := Ret (Some (mk (VTagged tag v) start (cur s4))) s4 in
            if has_registry o && negb (discard s4) then
              match lookup_tag o tag with
              | Some h =>
                let s5 := with_call s4 {| call_tag := tag; call_arg := v |} in
                match handler h v with
                | (Some r, _) => Ret (Some (set_range r start (cur s5))) s5
                | (None, ms) => Ret None (with_error s5 ESyntax (MHandler ms) start (cur s5))
                end
              | None =>
                if (reader_mode o =? READER_UNWRAP)%Z then Ret (Some v) s4
                else if (reader_mode o =? READER_ERROR)%Z then Ret None (err_at s4 EUnknownTag start (cur s4))
                else plain
              end
            else plain
          | x => x
          end
        | _ => Ret None (err_at s2 ESyntax start (cur s2))
        end
      | x => x
      end.

(* metadata.c (Clojure) *)
Definition meta_body (rv : rdr) (s : pst) : res (option node) :=
    let start := cur s in
    match rv (with_ext (with_cur s (start + 1)) "metadata") with
    | Ret None s1 =>
      if is_ok s1 then Ret None (err_at s1 ESyntax start (cur s1)) else Ret None s1
    | Ret (Some a) s1 =>
      if negb (meta_ok_annotation (nval a)) then Ret None (err_at s1 ESyntax start (cur s1))
      else
        match rv s1 with
        | Ret None s2 =>
          if is_ok s2 then Ret None (err_at s2 ESyntax start (cur s2)) else Ret None s2
        | Ret (Some form) s2 =>
          if negb (meta_ok_target (nval form)) then Ret None (err_at s2 ESyntax start (cur s2))
          else
            let '(nk, nv) := meta_entries a in
            let mm :=
                match nmeta form with
                | Some old =>
                  match old with
                  | Node (VMap ok ov) a1 b1 c1 d1 =>
                    let '(mk_, mv_) := meta_merge nk nv ok ov in Node (VMap mk_ mv_) a1 b1 c1 d1
                  | _ => old
                  end
                | None => mk (VMap nk nv) 0 0
                end in
            Ret (Some (set_rs (set_meta form (Some mm)) start)) s2
        | x => x
        end
    | x => x
    end.

(* The callees are passed eta-expanded so that (in the extracted, strict code) a reader for
   smaller fuel is only built when it is actually called. *)
Fixpoint read_value (fuel : nat) (s0 : pst) {struct fuel} : res (option node) :=
  match fuel with
  | O => OutOfFuel
  | S f => value_body (fun s => read_value f s) (fun k n s => read_seq f k n s)
                      (fun s p ns => read_map f s p ns) (fun s => read_nsmap f s)
                      (fun s => read_tagged f s) (fun s => read_meta f s) s0
  end
with read_seq (fuel : nat) (k : kind) (skip : N) (s : pst) {struct fuel} : res (option node) :=
  match fuel with
  | O => OutOfFuel
  | S f => seq_body (fun s1 acc => read_elems f s1 acc) k skip s
  end
with read_elems (fuel : nat) (s : pst) (acc : list node) {struct fuel} : res (option (list node)) :=
  match fuel with
  | O => OutOfFuel
  | S f => elems_body (fun s1 => read_value f s1) (fun s1 a => read_elems f s1 a) s acc
  end
with read_map (fuel : nat) (s : pst) (start : N) (ns : option bytes) {struct fuel} : res (option node) :=
  match fuel with
  | O => OutOfFuel
  | S f => map_body (fun s1 st n ks vs => read_entries f s1 st n ks vs) s start ns
  end
with read_entries (fuel : nat) (s : pst) (start : N) (ns : option bytes) (ks vs : list node) {struct fuel}
  : res (option (list node * list node)) :=
  match fuel with
  | O => OutOfFuel
  | S f => entries_body (fun s1 => read_value f s1) (fun s1 st n k v => read_entries f s1 st n k v) s start ns ks vs
  end
with read_nsmap (fuel : nat) (s : pst) {struct fuel} : res (option node) :=
  match fuel with
  | O => OutOfFuel
  | S f => nsmap_body (fun s1 => read_value f s1) (fun s1 p n => read_map f s1 p n) s
  end
with read_tagged (fuel : nat) (s : pst) {struct fuel} : res (option node) :=
  match fuel with
  | O => OutOfFuel
  | S f => tagged_body (fun s1 => read_value f s1) s
  end
with read_meta (fuel : nat) (s : pst) {struct fuel} : res (option node) :=
  match fuel with
  | O => OutOfFuel
  | S f => meta_body (fun s1 => read_value f s1) s
  end.

(* ---- error positions (newline_finder.c) ---- *)
(* binary_search_line: None = SIZE_MAX (first line) *)
Definition nthN (l : list N) (i : N) : N := nth (N.to_nat i) l 0.
Fixpoint bsearch (fuel : nat) (offs : list N) (off : N) (left right : N) (result : option N) : option N :=
  match fuel with
  | O => result
  | S f =>
    if left <=? right then
      let mid := left + (right - left) / 2 in
      if nthN offs mid <? off then bsearch f offs off (mid + 1) right (Some mid)
      else if mid =? 0 then result
      else bsearch f offs off left (mid - 1) result
    else result
  end.
Definition search_line (offs : list N) (off : N) : option N :=
  let cnt := N.of_nat (List.length offs) in
  if (cnt =? 0) || (off <=? nthN offs 0) then None
  else bsearch (S (N.to_nat cnt)) offs off 0 (cnt - 1) None.
Definition get_position (offs : list N) (off : N) : N * N * N :=
  match search_line offs off with
  | None => (off, 1, off + 1)
  | Some i => (off, i + 2, off - (nthN offs i + 1) + 1)
  end.

(* edn_read_with_options on the buffer m[0..e); len 0 is not modelled here (the harness
   always passes an explicit length >= 1, or the empty C string for the empty document) *)
Definition read_doc (fuel : nat) : res result :=
  match read_value fuel init_pst with
  | Ret v s =>
    let positions := lf_index m e in
    let so := match es s with Some a => a | None => cur s end in
    let eo := match ee s with Some a => a | None => cur s end in
    let '(ps, pe) := if is_ok s then ((0, 0, 0), (0, 0, 0))
                     else (get_position positions so, get_position positions eo) in
    if is_eof s && has_eof_value o then
      Ret {| r_value := None; r_eof := true; r_err := EOk; r_msg := MNone;
             r_start := ps; r_end := pe; r_state := s |} s
    else
      Ret {| r_value := v; r_eof := false; r_err := err s; r_msg := msg s;
             r_start := ps; r_end := pe; r_state := s |} s
  | UBx x => UBx x | OOBx x => OOBx x | OutOfFuel => OutOfFuel
  end.

End Reader.
