(* Model/Floats.v -- binary64 as Coq's spec_float: bit patterns, int conversion, the Clinger
   fast path with the GENERATED operation/table choice, and an executable correctly rounded
   decimal-to-binary conversion (the model of strtod).  No proofs here. *)
From Coq Require Import ZArith NArith List Bool String.
From Coq.Floats Require Import SpecFloat.
From Verif Require Import Lanes Common.
Import ListNotations.
Local Open Scope Z_scope.

Definition prec : Z := 53.
Definition emax : Z := 1024.

Definition sf_of_bits (b : Z) : spec_float :=
  let s := Z.testbit b 63 in
  let ebits := Z.land (Z.shiftr b 52) 2047 in
  let mant := Z.land b (2 ^ 52 - 1) in
  if ebits =? 2047 then (if mant =? 0 then S754_infinity s else S754_nan)
  else if ebits =? 0 then
    match mant with Zpos p => S754_finite s p (-1074) | _ => S754_zero s end
  else
    match mant + 2 ^ 52 with Zpos p => S754_finite s p (ebits - 1075) | _ => S754_nan end.

Definition sf_to_bits (f : spec_float) : Z :=
  let sb (s : bool) := if s then 2 ^ 63 else 0 in
  match f with
  | S754_zero s => sb s
  | S754_infinity s => sb s + 2047 * 2 ^ 52
  | S754_nan => 9221120237041090560           (* 0x7FF8000000000000 *)
  | S754_finite s m e =>
    let mz := Zpos m in
    if mz <? 2 ^ 52 then sb s + mz
    else sb s + (e + 1075) * 2 ^ 52 + (mz - 2 ^ 52)
  end.

(* (double) of an int64 *)
Definition sf_of_Z (z : Z) : spec_float := binary_normalize prec emax z 0 false.

Definition sf_is_nan (f : spec_float) : bool := match f with S754_nan => true | _ => false end.

Definition apply_op (op : string) (a b : spec_float) : spec_float :=
  if String.eqb op "*" then SFmul prec emax a b
  else if String.eqb op "/" then SFdiv prec emax a b
  else S754_nan.

(* number.c parse_double_fast: guards (generated literals 22 and 2^53-1 are checked against
   these by an obligation in Proofs) and one operation on a table entry *)
Definition fast_path_ok (mant e : Z) : bool :=
  negb ((e <? -22) || (e >? 22)) && negb (mant >? 9007199254740991).
Definition fast_path (mant e : Z) (neg : bool) : spec_float :=
  let d := sf_of_Z mant in
  let d' := if e <? 0
            then apply_op fastpath_neg_op d (sf_of_bits (nthz fastpath_neg_table (- e)))
            else apply_op fastpath_pos_op d (sf_of_bits (nthz fastpath_pos_table e)) in
  if neg then SFopp d' else d'.

(* correctly rounded (nearest, ties to even) binary64 of (-1)^neg * m * 10^e, m >= 0.
   digits10: an upper bound on the number of decimal digits of m (used only to short-cut
   astronomically small or large exponents; the short-cuts are exact, see Proofs) *)
Definition dec2fl (neg : bool) (m e : Z) (digits10 : Z) : spec_float :=
  if m =? 0 then S754_zero neg
  else if e >? 400 then S754_infinity neg
  else if e + digits10 <? -400 then S754_zero neg
  else if e >=? 0 then
    match binary_normalize prec emax (m * 10 ^ e) 0 false with
    | S754_finite _ mm ee => S754_finite neg mm ee
    | S754_infinity _ => S754_infinity neg
    | S754_zero _ => S754_zero neg
    | S754_nan => S754_nan
    end
  else
    let '(q, e', l) := SFdiv_core_binary prec emax m 0 (10 ^ (- e)) 0 in
    binary_round_aux prec emax neg q e' l.
