(* Model/Builder.v -- model of the collection builder of collection.c under an allocation
   failure oracle, with the provenance of the element array (arena or the reader function's
   stack frame).  No proofs. *)
From Coq Require Import ZArith List Bool.
Import ListNotations.

Inductive prov := PArena | PStack.
Record builder (A : Type) := { b_elems : list A; b_cap : nat; b_prov : prov }.
Arguments b_elems {A}. Arguments b_cap {A}. Arguments b_prov {A}.

Definition b_init {A} : builder A := {| b_elems := []; b_cap := 8; b_prov := PStack |}.

(* edn_collection_builder_add; [ok] = the arena request (if one is made) succeeds.
   Returns None when the builder reports failure. *)
Definition b_add {A} (ok : bool) (b : builder A) (v : A) : option (builder A) :=
  if Nat.ltb (List.length (b_elems b)) (b_cap b) then
    Some {| b_elems := b_elems b ++ [v]; b_cap := b_cap b; b_prov := b_prov b |}
  else if ok then
    Some {| b_elems := b_elems b ++ [v]; b_cap := b_cap b + Nat.div2 (b_cap b); b_prov := PArena |}
  else None.

(* edn_collection_builder_finish (after the repair): the inline array never escapes *)
Definition b_finish {A} (ok : bool) (b : builder A) : option (list A * prov) :=
  match b_prov b, b_elems b with
  | PStack, _ :: _ => if ok then Some (b_elems b, PArena) else None
  | p, _ => Some (b_elems b, p)
  end.

(* a whole collection: values to add, one oracle answer per step (+ one for finish) *)
Fixpoint b_run {A} (oks : list bool) (b : builder A) (vs : list A) : option (list A * prov) :=
  match vs, oks with
  | [], ok :: _ => b_finish ok b
  | [], [] => b_finish true b
  | v :: r, ok :: oks' => match b_add ok b v with Some b' => b_run oks' b' r | None => None end
  | v :: r, [] => match b_add true b v with Some b' => b_run [] b' r | None => None end
  end.
