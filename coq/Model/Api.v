(* Model/Api.v -- models of the lookup API (edn.c), the handler registry (reader.c), the
   external-type table (edn.c) and the arena allocator arithmetic (arena.c).  No proofs. *)
From Coq Require Import ZArith NArith List Bool String.
From Coq.Strings Require Import Byte.
From Verif Require Import Lanes Common Values Floats Numbers Equality Tokens.
Import ListNotations.
Local Open Scope Z_scope.

Section Lookup.
Variable c : cfg.
Variable ext_equal : Z -> option (Z -> Z -> bool).
Definition eqv := equal c ext_equal.

(* edn_map_lookup: value of the first entry whose key equals the probe; index reported *)
Fixpoint first_equal (ks : list node) (k : node) (i : nat) : option nat :=
  match ks with
  | [] => None
  | x :: t => if eqv x k then Some i else first_equal t k (S i)
  end.
Definition map_lookup (m : node) (k : node) : option nat :=
  match nval m with VMap ks _ => first_equal ks k O | _ => None end.
Definition map_contains (m : node) (k : node) : bool :=
  match map_lookup m k with Some _ => true | None => false end.
Definition set_contains (s : node) (k : node) : bool :=
  match nval s with VSet xs => existsb (fun x => eqv x k) xs | _ => false end.
(* convenience helpers build a temporary key: no arena, no cached hash, no escape flag *)
Definition temp_keyword (ns : option bytes) (name : bytes) : node := mk (VKeyword ns name) 0 0.
Definition temp_string (key : bytes) : node := mk (VString key false None) 0 0.
Definition map_get_keyword (m : node) (name : bytes) : option nat := map_lookup m (temp_keyword None name).
Definition map_get_ns_keyword (m : node) (ns name : bytes) : option nat :=
  map_lookup m (temp_keyword (Some ns) name).
Definition map_get_string_key (m : node) (key : bytes) : option nat := map_lookup m (temp_string key).
End Lookup.

(* ------------------------------------------------------------------ reader.c registry *)
Definition hash_tag (t : bytes) : Z := fnv_bytes fnv_basis t.
Definition bucket_of (t : bytes) : nat := Z.to_nat (hash_tag t mod INITIAL_BUCKET_COUNT).
Definition registry := list (list (bytes * Z)).        (* buckets of (tag, handler) chains *)
Definition reg_empty : registry := repeat [] (Z.to_nat INITIAL_BUCKET_COUNT).
Fixpoint chain_replace (ch : list (bytes * Z)) (t : bytes) (h : Z) : option (list (bytes * Z)) :=
  match ch with
  | [] => None
  | (k, v) :: r => if bytes_eqb k t then Some ((k, h) :: r)
                   else match chain_replace r t h with Some r' => Some ((k, v) :: r') | None => None end
  end.
Fixpoint chain_remove (ch : list (bytes * Z)) (t : bytes) : list (bytes * Z) :=
  match ch with
  | [] => []
  | (k, v) :: r => if bytes_eqb k t then r else (k, v) :: chain_remove r t
  end.
Fixpoint chain_find (ch : list (bytes * Z)) (t : bytes) : option Z :=
  match ch with
  | [] => None
  | (k, v) :: r => if bytes_eqb k t then Some v else chain_find r t
  end.
Fixpoint upd_nth {A} (n : nat) (f : A -> A) (l : list A) : list A :=
  match n, l with
  | O, x :: t => f x :: t
  | S k, x :: t => x :: upd_nth k f t
  | _, [] => []
  end.
Definition reg_register (r : registry) (t : bytes) (h : Z) : registry :=
  upd_nth (bucket_of t) (fun ch => match chain_replace ch t h with Some ch' => ch' | None => (t, h) :: ch end) r.
Definition reg_unregister (r : registry) (t : bytes) : registry :=
  upd_nth (bucket_of t) (fun ch => chain_remove ch t) r.
Definition reg_lookup (r : registry) (t : bytes) : option Z := chain_find (nth (bucket_of t) r []) t.

Inductive reg_op := RReg (t : bytes) (h : Z) | RUnreg (t : bytes) | RLook (t : bytes).
Definition reg_step (r : registry) (o : reg_op) : registry * option (option Z) :=
  match o with
  | RReg t h => (reg_register r t h, None)
  | RUnreg t => (reg_unregister r t, None)
  | RLook t => (r, Some (reg_lookup r t))
  end.
Fixpoint reg_run (r : registry) (ops : list reg_op) : list (option (option Z)) :=
  match ops with [] => [] | o :: t => let '(r', out) := reg_step r o in out :: reg_run r' t end.

(* ------------------------------------------------------------------ external-type table *)
Definition exttab := list (Z * Z).       (* (type id, callback selector), most recent first *)
Fixpoint ext_replace (l : exttab) (id k : Z) : option exttab :=
  match l with
  | [] => None
  | (i, v) :: r => if i =? id then Some ((i, k) :: r)
                   else match ext_replace r id k with Some r' => Some ((i, v) :: r') | None => None end
  end.
Definition ext_register (l : exttab) (id k : Z) : exttab :=
  match ext_replace l id k with Some l' => l' | None => (id, k) :: l end.
Fixpoint ext_unregister (l : exttab) (id : Z) : exttab :=
  match l with [] => [] | (i, v) :: r => if i =? id then r else (i, v) :: ext_unregister r id end.
Fixpoint ext_lookup (l : exttab) (id : Z) : option Z :=
  match l with [] => None | (i, v) :: r => if i =? id then Some v else ext_lookup r id end.

(* ------------------------------------------------------------------ arena.c *)
Record block := { b_used : Z; b_cap : Z }.
Record arena := { blocks : list block;      (* current block first *)
                  next_size : Z }.
Definition arena_new : arena :=
  {| blocks := [{| b_used := 0; b_cap := ARENA_INITIAL_SIZE |}]; next_size := ARENA_MEDIUM_SIZE |}.
Definition size_max : Z := two64 - 1.
Definition round8 (size : Z) : Z := Z.land (u64 (size + 7)) (u64 (Z.lnot 7)).
(* edn_arena_alloc: Some (block index counted from the oldest, offset) | None; malloc_ok
   decides whether libc can provide a block of the given size *)
Definition arena_alloc (malloc_ok : Z -> bool) (a : arena) (size : Z) : option (nat * Z) * arena :=
  if size >? size_max - 7 then (None, a)
  else
  let sz := round8 size in
  match blocks a with
  | [] => (None, a)
  | cur :: rest =>
    if sz <=? b_cap cur - b_used cur then
      (Some (List.length rest, b_used cur),
       {| blocks := {| b_used := b_used cur + sz; b_cap := b_cap cur |} :: rest; next_size := next_size a |})
    else
      let bs := if sz >? next_size a then sz else next_size a in
      if bs >? size_max - arena_header then (None, a)
      else if malloc_ok (arena_header + bs) then
        let ns := if next_size a <? ARENA_LARGE_SIZE
                  then (if next_size a * 2 >? ARENA_LARGE_SIZE then ARENA_LARGE_SIZE else next_size a * 2)
                  else next_size a in
        (Some (S (List.length rest), 0),
         {| blocks := {| b_used := sz; b_cap := bs |} :: cur :: rest; next_size := ns |})
      else (None, a)
  end.
