(* Model/Scan.v -- executable models of the accelerated scanners of edn.c (x86-64 code
   paths) over an unbounded memory [mem : N -> byte] and explicit [ptr]/[end] offsets,
   mirroring the 16-byte-chunk loop + scalar tail structure of the C code, and the plain
   byte-at-a-time specifications they are proved equal to (Proofs/ScanProofs.v).
   No proofs in this file. *)
From Coq Require Import ZArith NArith List Bool Lia.
From Coq.Strings Require Import Byte.
From Verif Require Import Lanes Common.
Import ListNotations.
Local Open Scope N_scope.

Definition mem := N -> byte.

(* byte classes, from the generated predicates *)
Definition is_ws (b : byte) : bool := ws_scalar (bz b).
Definition is_ws_vec (b : byte) : bool := skipws_mask_lane (bz b).
Definition is_lf (b : byte) : bool := Byte.eqb b "010"%byte.
Definition is_lf_vec_findnl (b : byte) : bool := findnl_mask_lane (bz b).
Definition is_lf_vec_index (b : byte) : bool := lfindex_mask_lane (bz b).
Definition is_semi (b : byte) : bool := Byte.eqb b ";"%byte.
Definition is_quote (b : byte) : bool := Byte.eqb b """"%byte.
Definition is_bslash (b : byte) : bool := Byte.eqb b "\"%byte.
Definition is_quote_vec (b : byte) : bool := findquote_quote_mask_lane (bz b).
Definition is_bslash_vec (b : byte) : bool := findquote_bs_mask_lane (bz b).
Definition is_digit (b : byte) : bool := (48 <=? bz b)%Z && (bz b <=? 57)%Z.
Definition is_digit_vec (b : byte) : bool := digits_mask_lane (bz b).
Definition is_delim (b : byte) : bool := negb (nthz DELIMITER_TABLE (bz b) =? 0)%Z.
Definition is_colon (b : byte) : bool := Byte.eqb b ":"%byte.
Definition is_slash (b : byte) : bool := Byte.eqb b "/"%byte.

(* ------------------------------------------------------------------ 16-lane masks *)
Definition lanes16 : list N := [0;1;2;3;4;5;6;7;8;9;10;11;12;13;14;15].

(* _mm_movemask_epi8 of a lane-wise predicate applied to the 16 bytes at m[i..i+16) *)
Definition mask16 (m : mem) (p : byte -> bool) (i : N) : list bool :=
  map (fun k => p (m (i + k))) lanes16.
Definition all_set (mk : list bool) : bool := forallb (fun b => b) mk.      (* mask == 0xFFFF *)
Definition any_set (mk : list bool) : bool := existsb (fun b => b) mk.      (* mask != 0      *)
Fixpoint ctz (mk : list bool) : N :=                                        (* CTZ(mask)      *)
  match mk with [] => 0 | true :: _ => 0 | false :: t => 1 + ctz t end.
Definition mask_or (a b : list bool) : list bool :=
  map (fun p => orb (fst p) (snd p)) (combine a b).
Definition mask_not (a : list bool) : list bool := map negb a.

(* the bytes m[off..off+len) *)
Definition slice (m : mem) (off : N) (len : nat) : list byte :=
  map (fun k => m (off + N.of_nat k)) (seq 0 len).

(* ------------------------------------------------------------------ scan_digits
   simd.c edn_simd_scan_digits (x86): chunk loop returning ptr+ctz(~mask) at the first
   chunk containing a non-digit, then scalar tail *)
Fixpoint scan_digits_tail (fuel : nat) (m : mem) (p e : N) : N :=
  match fuel with
  | O => p
  | S f => if (p <? e) && is_digit (m p) then scan_digits_tail f m (p + 1) e else p
  end.
Fixpoint scan_digits_chunked (fuel : nat) (m : mem) (p e : N) : N :=
  match fuel with
  | O => p
  | S f =>
    if p + 16 <=? e then
      let mk := mask16 m is_digit_vec p in
      if all_set mk then scan_digits_chunked f m (p + 16) e
      else p + ctz (mask_not mk)
    else scan_digits_tail (S f) m p e
  end.
Definition scan_digits (m : mem) (p e : N) : N :=
  scan_digits_chunked (S (N.to_nat (e - p))) m p e.
(* spec: number of leading digits *)
Fixpoint count_while (f : byte -> bool) (l : list byte) : nat :=
  match l with [] => O | b :: t => if f b then S (count_while f t) else O end.
Definition scan_digits_spec (l : list byte) : nat := count_while is_digit l.

(* ------------------------------------------------------------------ find newline (comment)
   simd.c edn_simd_find_newline_sse *)
Fixpoint find_nl_tail (fuel : nat) (m : mem) (p e : N) : N :=
  match fuel with
  | O => p
  | S f => if (p <? e) && negb (is_lf (m p)) then find_nl_tail f m (p + 1) e else p
  end.
Fixpoint find_nl_chunked (fuel : nat) (m : mem) (p e : N) : N :=
  match fuel with
  | O => p
  | S f =>
    if p + 16 <=? e then
      let mk := mask16 m is_lf_vec_findnl p in
      if any_set mk then p + ctz mk else find_nl_chunked f m (p + 16) e
    else find_nl_tail (S f) m p e
  end.
Definition find_nl (m : mem) (p e : N) : N := find_nl_chunked (S (N.to_nat (e - p))) m p e.

(* ------------------------------------------------------------------ skip whitespace
   simd.c edn_simd_skip_whitespace (x86) *)
Fixpoint skip_ws_chunked (fuel : nat) (m : mem) (p e : N) : N :=
  match fuel with
  | O => p
  | S f =>
    if p <? e then
      if is_semi (m p) then
        let q := find_nl m (p + 1) e in
        let q' := if (q <? e) && is_lf (m q) then q + 1 else q in
        skip_ws_chunked f m q' e
      else if (p + 16 <=? e) && all_set (mask16 m is_ws_vec p) then
        skip_ws_chunked f m (p + 16) e
      else if is_ws (m p) then skip_ws_chunked f m (p + 1) e
      else p
    else p
  end.
Definition skip_ws (m : mem) (p e : N) : N := skip_ws_chunked (S (N.to_nat (e - p))) m p e.
(* spec: plain byte-at-a-time scan with a one-bit state "inside a comment" *)
Fixpoint skip_ws_spec (incomment : bool) (l : list byte) : nat :=
  match l with
  | [] => O
  | b :: t =>
    if incomment then S (skip_ws_spec (negb (is_lf b)) t)
    else if is_semi b then S (skip_ws_spec true t)
    else if is_ws b then S (skip_ws_spec false t)
    else O
  end.

(* ------------------------------------------------------------------ find closing quote
   simd.c edn_simd_find_quote (x86).  Result: None = NULL, Some (q, flag).  The value stored
   to *out_has_backslash is the GENERATED expression (Gen/Common.v findquote_flag_vec /
   findquote_flag_tail) applied to the loop variables, so the model says what the code says. *)
Fixpoint mask_val (mk : list bool) : Z :=            (* integer value of a movemask *)
  match mk with [] => 0%Z | b :: t => (b2z b + 2 * mask_val t)%Z end.
Fixpoint find_quote_tail (fuel : nat) (m : mem) (p e : N) (hb : bool) : option (N * bool) :=
  match fuel with
  | O => None
  | S f =>
    if p <? e then
      if is_bslash (m p) then
        if e <=? p + 1 then None else find_quote_tail f m (p + 2) e true
      else if is_quote (m p) then Some (p, findquote_flag_tail (b2z hb) 0 0 0 0)
      else find_quote_tail f m (p + 1) e hb
    else None
  end.
Fixpoint find_quote_chunked (fuel : nat) (m : mem) (p e : N) (hb : bool)
  : option (N * bool) :=
  match fuel with
  | O => None
  | S f =>
    if p + 16 <=? e then
      let qm := mask16 m is_quote_vec p in
      let bm := mask16 m is_bslash_vec p in
      let sm := mask_or qm bm in
      if negb (any_set sm) then find_quote_chunked f m (p + 16) e hb
      else
        let idx := ctz sm in
        if is_bslash (m (p + idx)) then
          if e <=? p + idx + 1 then None
          else find_quote_chunked f m (p + idx + 2) e true
        else Some (p + idx,
                   findquote_flag_vec (b2z hb) (mask_val bm) (mask_val qm) (mask_val sm) (Z.of_N idx))
    else find_quote_tail (S f) m p e hb
  end.
Definition find_quote (m : mem) (p e : N) : option (N * bool) :=
  find_quote_chunked (S (N.to_nat (e - p))) m p e false.
(* spec: index of the first unescaped quote and whether a backslash precedes it *)
Fixpoint find_quote_spec (esc seen : bool) (i : nat) (l : list byte) : option (nat * bool) :=
  match l with
  | [] => None
  | b :: t =>
    if esc then find_quote_spec false seen (S i) t
    else if is_bslash b then find_quote_spec true true (S i) t
    else if is_quote b then Some (i, seen)
    else find_quote_spec false seen (S i) t
  end.

(* ------------------------------------------------------------------ identifier scan
   identifier.c scan_identifier: scalar loop when at most 16 bytes remain, otherwise
   edn_simd_scan_identifier (scalar on x86-64: simd.c:1022) followed by a continuation
   loop seeded with "last byte was a colon".  Result: None = "::" seen (invalid), else
   Some (end, first_slash). *)
Fixpoint ident_loop (fuel : nat) (m : mem) (p e : N) (prev_colon : bool) (slash : option N)
  : option (N * option N) :=
  match fuel with
  | O => Some (p, slash)
  | S f =>
    if p <? e then
      let c := m p in
      if is_delim c then Some (p, slash)
      else if is_colon c && prev_colon then None
      else ident_loop f m (p + 1) e (is_colon c)
                      (match slash with Some s => Some s | None => if is_slash c then Some p else None end)
    else Some (p, slash)
  end.
(* edn_simd_scan_identifier, scalar variant: never stops early, records adjacency *)
Fixpoint ident_simd_scalar (fuel : nat) (m : mem) (p e : N) (prev_colon adj : bool) (slash : option N)
  : N * option N * bool :=
  match fuel with
  | O => (p, slash, adj)
  | S f =>
    if p <? e then
      let c := m p in
      if is_delim c then (p, slash, adj)
      else ident_simd_scalar f m (p + 1) e (is_colon c) (adj || (is_colon c && prev_colon))
                             (match slash with Some s => Some s | None => if is_slash c then Some p else None end)
    else (p, slash, adj)
  end.
Definition scan_identifier (m : mem) (p e : N) : option (N * option N) :=
  let fuel := S (N.to_nat (e - p)) in
  if e - p <=? 16 then ident_loop fuel m p e false None
  else
    match ident_simd_scalar fuel m p e false false None with
    | (q, slash, adj) =>
      if adj then None
      else
        let pc := (p <? q) && is_colon (m (q - 1)) in
        ident_loop fuel m q e pc slash
    end.
(* spec on the byte list *)
Fixpoint ident_spec (prev_colon : bool) (slash : option nat) (i : nat) (l : list byte)
  : option (nat * option nat) :=
  match l with
  | [] => Some (i, slash)
  | c :: t =>
    if is_delim c then Some (i, slash)
    else if is_colon c && prev_colon then None
    else ident_spec (is_colon c)
                    (match slash with Some s => Some s | None => if is_slash c then Some i else None end)
                    (S i) t
  end.

(* ------------------------------------------------------------------ line-feed index
   newline_finder.c newline_find_all_simd (x86): per chunk, iterate the set bits in
   ascending order (CTZ + mask &= mask-1), then scalar tail *)
Fixpoint mask_positions (base : N) (k : N) (mk : list bool) : list N :=
  match mk with
  | [] => []
  | b :: t => if b then (base + k) :: mask_positions base (k + 1) t else mask_positions base (k + 1) t
  end.
Fixpoint lf_index_tail (fuel : nat) (m : mem) (p e : N) : list N :=
  match fuel with
  | O => []
  | S f => if p <? e then (if is_lf (m p) then [p] else []) ++ lf_index_tail f m (p + 1) e else []
  end.
Fixpoint lf_index_chunked (fuel : nat) (m : mem) (p e : N) : list N :=
  match fuel with
  | O => []
  | S f =>
    if p + 16 <=? e then
      mask_positions p 0 (mask16 m is_lf_vec_index p) ++ lf_index_chunked f m (p + 16) e
    else lf_index_tail (S f) m p e
  end.
Definition lf_index (m : mem) (len : N) : list N := lf_index_chunked (S (N.to_nat len)) m 0 len.
Fixpoint lf_positions (i : N) (l : list byte) : list N :=
  match l with
  | [] => []
  | b :: t => if is_lf b then i :: lf_positions (i + 1) t else lf_positions (i + 1) t
  end.
