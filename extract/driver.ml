(* driver.ml -- model side of the correspondence check: reads the same case lines as
   harness/h_main.c and prints one observation line per case, in the same format.
   Usage: driver <cfg: 00|10|01|11> *)
open Model
type string = Stdlib.String.t

(* ---- conversions between OCaml ints/strings and the extracted Coq numbers ---- *)
let rec pos_of_int (i : int) : positive =
  if i = 1 then XH else if i land 1 = 0 then XO (pos_of_int (i lsr 1)) else XI (pos_of_int (i lsr 1))
let n_of_int (i : int) : n = if i = 0 then N0 else Npos (pos_of_int i)
let z_of_int (i : int) : z = if i = 0 then Z0 else if i > 0 then Zpos (pos_of_int i) else Zneg (pos_of_int (-i))
let rec int_of_pos (p : positive) : int =
  match p with XH -> 1 | XO q -> 2 * int_of_pos q | XI q -> 2 * int_of_pos q + 1
let int_of_n (x : n) : int = match x with N0 -> 0 | Npos p -> int_of_pos p
let int_of_z (x : z) : int = match x with Z0 -> 0 | Zpos p -> int_of_pos p | Zneg p -> - (int_of_pos p)

(* arbitrary-size decimal / hex printing of z *)
let rec pos_bits (p : positive) : bool list = (* least significant first *)
  match p with XH -> [true] | XO q -> false :: pos_bits q | XI q -> true :: pos_bits q
(* decimal string of a positive via repeated doubling on a digit array *)
let dec_of_pos (p : positive) : string =
  let bits = List.rev (pos_bits p) in
  let digits = ref [0] in (* little endian decimal digits *)
  let double_add (b : bool) =
    let carry = ref (if b then 1 else 0) in
    digits := List.map (fun d -> let v = 2 * d + !carry in carry := v / 10; v mod 10) !digits;
    if !carry > 0 then digits := !digits @ [!carry] in
  List.iter double_add bits;
  String.concat "" (List.rev_map string_of_int !digits)
let dec_of_z (x : z) : string =
  match x with Z0 -> "0" | Zpos p -> dec_of_pos p | Zneg p -> "-" ^ dec_of_pos p
let hex_of_z64 (x : z) : string =
  (* x in [0, 2^64) *)
  let bits = match x with Z0 -> [] | Zpos p -> pos_bits p | Zneg _ -> [] in
  let arr = Array.make 64 false in
  List.iteri (fun i b -> if i < 64 then arr.(i) <- b) bits;
  let buf = Buffer.create 16 in
  for nib = 15 downto 0 do
    let v = ref 0 in
    for k = 3 downto 0 do v := !v * 2 + (if arr.(nib * 4 + k) then 1 else 0) done;
    Buffer.add_char buf "0123456789abcdef".[!v]
  done;
  Buffer.contents buf

let z_of_dec (s : string) : z =
  let neg = String.length s > 0 && s.[0] = '-' in
  let digits = if neg then String.sub s 1 (String.length s - 1) else s in
  let ten = z_of_int 10 in
  let v = ref Z0 in
  String.iter (fun ch -> v := Z.add (Z.mul !v ten) (z_of_int (Char.code ch - 48))) digits;
  if neg then Z.opp !v else !v

let byte_tab : byte array =
  Array.init 256 (fun i -> match of_N0 (n_of_int i) with Some b -> b | None -> X00)
let int_of_byte (b : byte) : int = int_of_n (to_N0 b)

let hexval c =
  match c with
  | '0'..'9' -> Char.code c - 48 | 'a'..'f' -> Char.code c - 87 | 'A'..'F' -> Char.code c - 55
  | _ -> failwith "bad hex"
let bytes_of_hex (h : string) : int array =
  if h = "-" then [||]
  else Array.init (String.length h / 2) (fun i -> hexval h.[2 * i] * 16 + hexval h.[2 * i + 1])
let mem_of (a : int array) : mem =
  fun (i : n) -> let k = int_of_n i in if k < Array.length a then byte_tab.(a.(k)) else X00
let hex_of_bytes (l : byte list) : string =
  let buf = Buffer.create 16 in
  List.iter (fun b -> Buffer.add_string buf (Printf.sprintf "%02x" (int_of_byte b))) l;
  if Buffer.length buf = 0 then "-" else Buffer.contents buf
let coq_bytes_of_string (s : string) : byte list =
  List.init (String.length s) (fun i -> byte_tab.(Char.code s.[i]))

let the_cfg = ref cfg00

(* ---- canonical dump, same format as harness/h_dump.h ---- *)
let rec dump (buf : Buffer.t) (nd : node) : unit =
  let Node (v, rs, re, meta, _) = nd in
  let add = Buffer.add_string buf in
  (match v with
   | VNil -> add "nil"
   | VBool b -> add (if b then "true" else "false")
   | VInt z -> add ("int:" ^ dec_of_z z)
   | VBigInt (neg, radix, ds) ->
     add (Printf.sprintf "bigint:%d:%d:%s" (if neg then 1 else 0) (int_of_z radix)
            (hex_of_bytes (if !the_cfg.exp then List.filter (fun b -> int_of_byte b <> 95) ds else ds)))
   | VFloat f -> add ("float:" ^ hex_of_z64 (sf_to_bits f))
   | VBigDec (neg, ds) ->
     add (Printf.sprintf "bigdec:%d:%s" (if neg then 1 else 0)
            (hex_of_bytes (if !the_cfg.exp then List.filter (fun b -> int_of_byte b <> 95) ds else ds)))
   | VRatio (a, b) -> add (Printf.sprintf "ratio:%s/%s" (dec_of_z a) (dec_of_z b))
   | VBigRatio (neg, a, b) ->
     add (Printf.sprintf "bigratio:%d:%s/%s" (if neg then 1 else 0) (hex_of_bytes a) (hex_of_bytes b))
   | VChar cp -> add (Printf.sprintf "char:%d" (int_of_z cp))
   | VString (raw, esc, _) ->
     add (Printf.sprintf "str:%d:%s:" (if esc then 1 else 0) (hex_of_bytes raw));
     (match string_get !the_cfg v with
      | None -> add "NULL"
      | Some (bs, len) -> add (Printf.sprintf "%d:%s" (int_of_n len) (hex_of_bytes bs)))
   | VSymbol (ns, nm) ->
     add (Printf.sprintf "sym:%s:%s" (match ns with None -> "~" | Some q -> hex_of_bytes q) (hex_of_bytes nm))
   | VKeyword (ns, nm) ->
     add (Printf.sprintf "kw:%s:%s" (match ns with None -> "~" | Some q -> hex_of_bytes q) (hex_of_bytes nm))
   | VList xs -> add "(list"; List.iter (fun x -> add " "; dump buf x) xs; add ")"
   | VVector xs -> add "(vec"; List.iter (fun x -> add " "; dump buf x) xs; add ")"
   | VSet xs -> add "(set"; List.iter (fun x -> add " "; dump buf x) xs; add ")"
   | VMap (ks, vs) ->
     add "(map"; List.iter2 (fun k x -> add " "; dump buf k; add " "; dump buf x) ks vs; add ")"
   | VTagged (tag, x) -> add (Printf.sprintf "(tag:%s " (hex_of_bytes tag)); dump buf x; add ")"
   | VExternal (t, d) -> add (Printf.sprintf "ext:%d:%d" (int_of_z t) (int_of_z d)));
  add (Printf.sprintf "@%d-%d" (int_of_n rs) (int_of_n re));
  (match meta with None -> () | Some mm -> add "^"; dump buf mm)

let ecode_name (e : ecode) : string =
  match e with
  | EOk -> "OK" | ESyntax -> "INVALID_SYNTAX" | EEof -> "UNEXPECTED_EOF"
  | EUnterminated -> "UNTERMINATED_COLLECTION" | EOom -> "OUT_OF_MEMORY" | ENumber -> "INVALID_NUMBER"
  | EString -> "INVALID_STRING" | ECharacter -> "INVALID_CHARACTER" | EDiscard -> "INVALID_DISCARD"
  | EUnmatched -> "UNMATCHED_DELIMITER" | EUnknownTag -> "UNKNOWN_TAG" | EDupKey -> "DUPLICATE_KEY"
  | EDupElem -> "DUPLICATE_ELEMENT"

let msg_str (m : emsg) : string =
  match m with
  | MNone -> "nomsg" | MStatic -> "msg"
  | MHandler None -> "msg"                 (* library's default text for a silent handler *)
  | MHandler (Some t) -> "hmsg:" ^ hex_of_bytes t

let parse_registry (s : string) : (bytes * z) list option =
  if s = "-" then None
  else if s = "+" then Some []
  else
    Some (List.map (fun item ->
        match String.split_on_char ':' item with
        | [t; h] -> (coq_bytes_of_string t, z_of_int (int_of_string h))
        | _ -> failwith "bad registry") (String.split_on_char ',' s))

let pos3 ((a, b), c) = Printf.sprintf "%d,%d,%d" (int_of_n a) (int_of_n b) (int_of_n c)

let show_doc_result (o : opts) (r : result res) (verbose : bool) : string =
  match r with
  | UBx site -> "UB " ^ (String.concat "" (List.map (fun c -> String.make 1 c) [])) ^
                (let b = Buffer.create 16 in
                 let rec go (s : Model.string) = match s with EmptyString -> () | String (a, t) ->
                   (let Ascii (b0,b1,b2,b3,b4,b5,b6,b7) = a in
                    let v = List.fold_left (fun acc bit -> acc * 2 + (if bit then 1 else 0)) 0 [b7;b6;b5;b4;b3;b2;b1;b0] in
                    Buffer.add_char b (Char.chr v)); go t in go site; Buffer.contents b)
  | OOBx _ -> "OOB"
  | OutOfFuel -> "FUEL"
  | Ret (res, _) ->
    let st = res.r_state in
    let calls =
      let cs = List.rev st.calls in
      Printf.sprintf " calls=%d%s" (List.length cs)
        (String.concat "" (List.map (fun cl ->
             let h = match o.lookup_tag cl.call_tag with Some z -> int_of_z z | None -> -1 in
             let Node (_, rs, _, _, _) = cl.call_arg in
             Printf.sprintf ":h%d@%d" h (int_of_n rs)) cs)) in
    let ghost = if verbose then Printf.sprintf " nest=%d" (let rec c (x : nat) = match x with O -> 0 | S y -> 1 + c y in c st.max_nest) else "" in
    if res.r_eof then "EOFVALUE" ^ calls ^ ghost
    else
      match res.r_value, res.r_err with
      | Some v, EOk -> let b = Buffer.create 64 in dump b v; "OK " ^ Buffer.contents b ^ calls ^ ghost
      | None, EOk -> "NEITHER" ^ calls
      | Some _, e -> "BOTH " ^ ecode_name e ^ calls
      | None, e ->
        Printf.sprintf "ERR %s %s %s %s%s%s" (ecode_name e) (msg_str res.r_msg) (pos3 res.r_start)
          (pos3 res.r_end) calls ghost

let () =
  let cfgname = if Array.length Sys.argv > 1 then Sys.argv.(1) else "00" in
  let verbose = Array.length Sys.argv > 2 && Sys.argv.(2) = "-v" in
  the_cfg := (match cfgname with "00" -> cfg00 | "10" -> cfg10 | "01" -> cfg01 | "11" -> cfg11
                               | _ -> failwith "cfg");
  let c = !the_cfg in
  (try
     while true do
       let line = input_line stdin in
       let tok = List.filter (fun s -> s <> "") (String.split_on_char ' ' line) in
       let out =
         try
           match tok with
           | [] -> ""
           | ["skipws"; h; p; e] ->
             let a = bytes_of_hex h in
             string_of_int (int_of_n (skip_ws (mem_of a) (n_of_int (int_of_string p)) (n_of_int (int_of_string e))))
           | ["findquote"; h; p; e] ->
             let a = bytes_of_hex h in
             (match find_quote (mem_of a) (n_of_int (int_of_string p)) (n_of_int (int_of_string e)) with
              | None -> "NULL"
              | Some (q, f) -> Printf.sprintf "%d %d" (int_of_n q) (if f then 1 else 0))
           | ["digits"; h; p; e] ->
             let a = bytes_of_hex h in
             string_of_int (int_of_n (scan_digits (mem_of a) (n_of_int (int_of_string p)) (n_of_int (int_of_string e))))
           | ["ident"; h; p; e] ->
             let a = bytes_of_hex h in
             (match split_identifier (mem_of a) (n_of_int (int_of_string e)) (n_of_int (int_of_string p)) with
              | None -> "INVALID"
              | Some ((len, ns), (no, nl)) ->
                Printf.sprintf "%d %s name=%d+%d" (int_of_string p + int_of_n len)
                  (match ns with None -> "ns=-" | Some (a, b) -> Printf.sprintf "ns=%d+%d" (int_of_n a) (int_of_n b))
                  (int_of_n no) (int_of_n nl))
           | ["lfindex"; h] ->
             let a = bytes_of_hex h in
             let l = lf_index (mem_of a) (n_of_int (Array.length a)) in
             Printf.sprintf "%d:%s" (List.length l) (String.concat "," (List.map (fun x -> string_of_int (int_of_n x)) l))
           | "doc" :: h :: reg :: mode :: eof :: rest ->
             let a = bytes_of_hex h in
             let len = match rest with [l] -> int_of_string l | _ -> Array.length a in
             let o = mk_opts (parse_registry reg) (z_of_int (int_of_string mode)) (eof = "1") in
             show_doc_result o (run_doc c o (mem_of a) (n_of_int len)) verbose
           | ["int64"; h; radix; neg] ->
             let a = bytes_of_hex h in
             (match parse_int64 c (Array.to_list (Array.map (fun x -> byte_tab.(x)) a))
                      (z_of_int (int_of_string radix)) (neg <> "0") with
              | IOk v -> "OK " ^ dec_of_z v
              | IOverflow -> "OVERFLOW"
              | IUB _ -> "UB")
           | ["swar"; h] ->
             let a = bytes_of_hex h in
             let l = Array.to_list (Array.map (fun x -> byte_tab.(x)) a) in
             let v = le_val l in
             (match eight_digits_check v with
              | Z0 -> "0"
              | _ -> "1 " ^ dec_of_z (eight_digits_value v))
           | ["double"; h] ->
             let a = bytes_of_hex h in
             (match parse_double c (Array.to_list (Array.map (fun x -> byte_tab.(x)) a)) with
              | DOk f -> hex_of_z64 (sf_to_bits f)
              | DUB _ -> "UB")
           | ["gcd"; x; y] ->
             if not c.clj then "NA" else
             (match ratio_gcd (z_of_dec x) (z_of_dec y) with
              | Some g -> dec_of_z g
              | None -> "NONTERMINATION")
           | cmd :: _ -> "BADCMD " ^ cmd
         with Failure m -> "DRIVERFAIL " ^ m
       in
       print_string out; print_char '\n'; flush stdout
     done
   with End_of_file -> ())
