(* driver.ml -- model side of the correspondence check: reads the same case lines as
   harness/h_main.c and prints one observation line per case, in the same format.
   Usage: driver <cfg: 00|10|01|11> *)
open Model
type string = Stdlib.String.t

(* ---- conversions between OCaml ints/strings and the extracted Coq numbers ---- *)
let rec pos_of_int (i : int) : positive =
  if i = 1 then XH else if i land 1 = 0 then XO (pos_of_int (i lsr 1)) else XI (pos_of_int (i lsr 1))
let n_of_int (i : int) : n = if i = 0 then N0 else Npos (pos_of_int i)
let z_of_int (i : int) : z = if i = 0 then Z0 else if i > 0 then Zpos (pos_of_int i) else Zneg (pos_of_int (-i))
let rec int_of_pos (p : positive) : int =
  match p with XH -> 1 | XO q -> 2 * int_of_pos q | XI q -> 2 * int_of_pos q + 1
let int_of_n (x : n) : int = match x with N0 -> 0 | Npos p -> int_of_pos p
let int_of_z (x : z) : int = match x with Z0 -> 0 | Zpos p -> int_of_pos p | Zneg p -> - (int_of_pos p)

(* arbitrary-size decimal / hex printing of z *)
let rec pos_bits (p : positive) : bool list = (* least significant first *)
  match p with XH -> [true] | XO q -> false :: pos_bits q | XI q -> true :: pos_bits q
(* decimal string of a positive via repeated doubling on a digit array *)
let dec_of_pos (p : positive) : string =
  let bits = List.rev (pos_bits p) in
  let digits = ref [0] in (* little endian decimal digits *)
  let double_add (b : bool) =
    let carry = ref (if b then 1 else 0) in
    digits := List.map (fun d -> let v = 2 * d + !carry in carry := v / 10; v mod 10) !digits;
    if !carry > 0 then digits := !digits @ [!carry] in
  List.iter double_add bits;
  String.concat "" (List.rev_map string_of_int !digits)
let dec_of_z (x : z) : string =
  match x with Z0 -> "0" | Zpos p -> dec_of_pos p | Zneg p -> "-" ^ dec_of_pos p
let hex_of_z64 (x : z) : string =
  (* x in [0, 2^64) *)
  let bits = match x with Z0 -> [] | Zpos p -> pos_bits p | Zneg _ -> [] in
  let arr = Array.make 64 false in
  List.iteri (fun i b -> if i < 64 then arr.(i) <- b) bits;
  let buf = Buffer.create 16 in
  for nib = 15 downto 0 do
    let v = ref 0 in
    for k = 3 downto 0 do v := !v * 2 + (if arr.(nib * 4 + k) then 1 else 0) done;
    Buffer.add_char buf "0123456789abcdef".[!v]
  done;
  Buffer.contents buf

let z_of_dec (s : string) : z =
  let neg = String.length s > 0 && s.[0] = '-' in
  let digits = if neg then String.sub s 1 (String.length s - 1) else s in
  let ten = z_of_int 10 in
  let v = ref Z0 in
  String.iter (fun ch -> v := Z.add (Z.mul !v ten) (z_of_int (Char.code ch - 48))) digits;
  if neg then Z.opp !v else !v

let byte_tab : byte array =
  Array.init 256 (fun i -> match of_N0 (n_of_int i) with Some b -> b | None -> X00)
let int_of_byte (b : byte) : int = int_of_n (to_N0 b)

let hexval c =
  match c with
  | '0'..'9' -> Char.code c - 48 | 'a'..'f' -> Char.code c - 87 | 'A'..'F' -> Char.code c - 55
  | _ -> failwith "bad hex"
let bytes_of_hex (h : string) : int array =
  if h = "-" then [||]
  else Array.init (String.length h / 2) (fun i -> hexval h.[2 * i] * 16 + hexval h.[2 * i + 1])
let mem_of (a : int array) : mem =
  fun (i : n) -> let k = int_of_n i in if k < Array.length a then byte_tab.(a.(k)) else X00
let hex_of_bytes (l : byte list) : string =
  let buf = Buffer.create 16 in
  List.iter (fun b -> Buffer.add_string buf (Printf.sprintf "%02x" (int_of_byte b))) l;
  if Buffer.length buf = 0 then "-" else Buffer.contents buf
let coq_bytes_of_string (s : string) : byte list =
  List.init (String.length s) (fun i -> byte_tab.(Char.code s.[i]))

let the_cfg = ref cfg00

(* ---- canonical dump, same format as harness/h_dump.h ---- *)
let rec dump (buf : Buffer.t) (nd : node) : unit =
  let Node (v, rs, re, meta, _) = nd in
  let add = Buffer.add_string buf in
  (match v with
   | VNil -> add "nil"
   | VBool b -> add (if b then "true" else "false")
   | VInt z -> add ("int:" ^ dec_of_z z)
   | VBigInt (neg, radix, ds) ->
     add (Printf.sprintf "bigint:%d:%d:%s" (if neg then 1 else 0) (int_of_z radix)
            (hex_of_bytes (if !the_cfg.exp then List.filter (fun b -> int_of_byte b <> 95) ds else ds)))
   | VFloat f -> add ("float:" ^ hex_of_z64 (sf_to_bits f))
   | VBigDec (neg, ds) ->
     add (Printf.sprintf "bigdec:%d:%s" (if neg then 1 else 0)
            (hex_of_bytes (if !the_cfg.exp then List.filter (fun b -> int_of_byte b <> 95) ds else ds)))
   | VRatio (a, b) -> add (Printf.sprintf "ratio:%s/%s" (dec_of_z a) (dec_of_z b))
   | VBigRatio (neg, a, b) ->
     add (Printf.sprintf "bigratio:%d:%s/%s" (if neg then 1 else 0) (hex_of_bytes a) (hex_of_bytes b))
   | VChar cp -> add (Printf.sprintf "char:%d" (int_of_z cp))
   | VString (raw, esc, _) ->
     add (Printf.sprintf "str:%d:%s:" (if esc then 1 else 0) (hex_of_bytes raw));
     (match string_get !the_cfg v with
      | None -> add "NULL"
      | Some (bs, len) -> add (Printf.sprintf "%d:%s" (int_of_n len) (hex_of_bytes bs)))
   | VSymbol (ns, nm) ->
     add (Printf.sprintf "sym:%s:%s" (match ns with None -> "~" | Some q -> hex_of_bytes q) (hex_of_bytes nm))
   | VKeyword (ns, nm) ->
     add (Printf.sprintf "kw:%s:%s" (match ns with None -> "~" | Some q -> hex_of_bytes q) (hex_of_bytes nm))
   | VList xs -> add "(list"; List.iter (fun x -> add " "; dump buf x) xs; add ")"
   | VVector xs -> add "(vec"; List.iter (fun x -> add " "; dump buf x) xs; add ")"
   | VSet xs -> add "(set"; List.iter (fun x -> add " "; dump buf x) xs; add ")"
   | VMap (ks, vs) ->
     add "(map"; List.iter2 (fun k x -> add " "; dump buf k; add " "; dump buf x) ks vs; add ")"
   | VTagged (tag, x) -> add (Printf.sprintf "(tag:%s " (hex_of_bytes tag)); dump buf x; add ")"
   | VExternal (t, d) -> add (Printf.sprintf "ext:%d:%d" (int_of_z t) (int_of_z d)));
  add (Printf.sprintf "@%d-%d" (int_of_n rs) (int_of_n re));
  (match meta with None -> () | Some mm -> add "^"; dump buf mm)

let ecode_name (e : ecode) : string =
  match e with
  | EOk -> "OK" | ESyntax -> "INVALID_SYNTAX" | EEof -> "UNEXPECTED_EOF"
  | EUnterminated -> "UNTERMINATED_COLLECTION" | EOom -> "OUT_OF_MEMORY" | ENumber -> "INVALID_NUMBER"
  | EString -> "INVALID_STRING" | ECharacter -> "INVALID_CHARACTER" | EDiscard -> "INVALID_DISCARD"
  | EUnmatched -> "UNMATCHED_DELIMITER" | EUnknownTag -> "UNKNOWN_TAG" | EDupKey -> "DUPLICATE_KEY"
  | EDupElem -> "DUPLICATE_ELEMENT"

let msg_str (m : emsg) : string =
  match m with
  | MNone -> "nomsg" | MStatic -> "msg"
  | MHandler None -> "msg"                 (* library's default text for a silent handler *)
  | MHandler (Some t) -> "hmsg:" ^ hex_of_bytes t


(* ---- scripts over handles: the store maps handles to trees; hashing updates the tree ---- *)
let handles : node option array = Array.make 16 None

let children (nd : node) : node list =
  let Node (v, _, _, _, _) = nd in
  match v with
  | VList xs | VVector xs | VSet xs -> xs
  | VMap (ks, vs) -> List.concat (List.map2 (fun k x -> [k; x]) ks vs)
  | VTagged (_, x) -> [x]
  | _ -> []

let with_children (nd : node) (cs : node list) : node =
  let Node (v, a, b, m, h) = nd in
  let v' = match v with
    | VList _ -> VList cs | VVector _ -> VVector cs | VSet _ -> VSet cs
    | VMap _ ->
      let rec split l = match l with k :: x :: t -> let (ks, vs) = split t in (k :: ks, x :: vs) | _ -> ([], []) in
      let (ks, vs) = split cs in VMap (ks, vs)
    | VTagged (t, _) -> (match cs with [x] -> VTagged (t, x) | _ -> v)
    | _ -> v in
  Node (v', a, b, m, h)

type step = Child of int | Meta
let parse_path (p : string) : step list =
  List.filter_map (fun s -> if s = "" then None else if s = "m" then Some Meta else Some (Child (int_of_string s)))
    (String.split_on_char '.' p)

let rec nav (nd : node) (path : step list) : node option =
  match path with
  | [] -> Some nd
  | Meta :: r -> let Node (_, _, _, m, _) = nd in (match m with Some x -> nav x r | None -> None)
  | Child i :: r -> (match List.nth_opt (children nd) i with Some x -> nav x r | None -> None)

let rec update (nd : node) (path : step list) (f : node -> node) : node =
  match path with
  | [] -> f nd
  | Meta :: r ->
    let Node (v, a, b, m, h) = nd in
    (match m with Some x -> Node (v, a, b, Some (update x r f), h) | None -> nd)
  | Child i :: r ->
    with_children nd (List.mapi (fun k x -> if k = i then update x r f else x) (children nd))

(* "<h>.<path>" -> (handle, path) *)
let parse_ref (s : string) : int * step list =
  match String.index_opt s '.' with
  | None -> (int_of_string s, [])
  | Some i -> (int_of_string (String.sub s 0 i), parse_path (String.sub s (i + 1) (String.length s - i - 1)))

let get_ref (s : string) : node option =
  let (h, p) = parse_ref s in
  match handles.(h) with Some t -> nav t p | None -> None

let rec strip_ranges_s (s : string) : string =
  (* remove @a-b *)
  let b = Buffer.create (String.length s) in
  let n = String.length s in
  let i = ref 0 in
  while !i < n do
    if s.[!i] = '@' then begin
      incr i;
      while !i < n && (s.[!i] = '-' || (s.[!i] >= '0' && s.[!i] <= '9')) do incr i done
    end else begin Buffer.add_char b s.[!i]; incr i end
  done;
  Buffer.contents b

(* the registry named by a spec is the result of REGISTERING its items in order (a repeated tag is a
   re-registration), through the registry model proved to be a finite map *)
let parse_registry (s : string) : registry option =
  if s = "-" then None
  else if s = "+" then Some reg_empty
  else
    Some (List.fold_left (fun r item ->
        match String.split_on_char ':' item with
        | [t; h] -> reg_register r (coq_bytes_of_string t) (z_of_int (min 5 (int_of_string h)))
        | _ -> failwith "bad registry") reg_empty (String.split_on_char ',' s))

let opts_of (r : registry option) (mode : z) (eof : bool) : opts =
  { has_registry = (r <> None);
    lookup_tag = (match r with Some st -> (fun t -> reg_lookup st t) | None -> (fun _ -> None));
    reader_mode = mode; has_eof_value = eof }

(* external-type callbacks by kind: 0/2 = pointer equality, 1/3 = always equal, 5/6 = equal modulo 1000;
   hash: 0 = the pointer, 1 = constant 7, 5 = pointer mod 1000, 2/3/6 = none (pointer hash) *)
let ext_eq_of (k : int) : z -> z -> bool =
  match k with
  | 1 | 3 -> (fun _ _ -> true)
  | 5 | 6 -> (fun a b -> Z.eqb (Z.modulo a (z_of_int 1000)) (Z.modulo b (z_of_int 1000)))
  | _ -> (fun a b -> Z.eqb a b)
let ext_hash_of (k : int) : (z -> z) option =
  match k with
  | 0 -> Some (fun d -> d)
  | 1 -> Some (fun _ -> z_of_int 7)
  | 5 -> Some (fun d -> Z.modulo d (z_of_int 1000))
  | _ -> None

let run_script (c : cfg) (text : string) : string =
  Array.fill handles 0 16 None;
  let tab = ref [] in
  let xe (t : z) = match ext_lookup !tab t with Some k -> Some (ext_eq_of (int_of_z k)) | None -> None in
  let xh (t : z) = match ext_lookup !tab t with Some k -> ext_hash_of (int_of_z k) | None -> None in
  let no_ext_equal = xe and no_ext_hash = xh in
  let eqf a b = equal c xe a b in
  let ops = List.filter (fun s -> s <> "") (String.split_on_char ';' text) in
  let outs = List.map (fun op ->
      let k = op.[0] in
      let a = String.sub op 1 (String.length op - 1) in
      match k with
      | 'P' ->
        let i = String.index a '=' in
        let h = int_of_string (String.sub a 0 i) in
        let hex = String.sub a (i + 1) (String.length a - i - 1) in
        let arr = bytes_of_hex hex in
        let o = mk_opts None Z0 false in
        (match run_doc c o (mem_of arr) (n_of_int (Array.length arr)) with
         | Ret (r, _) ->
           (match r.r_value, r.r_err with
            | Some v, EOk -> handles.(h) <- Some v; "ok"
            | _, e -> handles.(h) <- None; "err:" ^ ecode_name e)
         | _ -> "modelfail")
      | 'R' ->
        (* R<h>=<hex>: read with the registry x:4,y:0 and the external-type table as it is now *)
        let i = String.index a '=' in
        let h = int_of_string (String.sub a 0 i) in
        let arr = bytes_of_hex (String.sub a (i + 1) (String.length a - i - 1)) in
        let o = opts_of (parse_registry "x:4,y:0") Z0 false in
        (match run_doc_x c o xe xh (mem_of arr) (n_of_int (Array.length arr)) with
         | Ret (r, _) ->
           (match r.r_value, r.r_err with
            | Some v, EOk -> handles.(h) <- Some v; "ok"
            | _, e -> handles.(h) <- None; "err:" ^ ecode_name e)
         | _ -> "modelfail")
      | 'X' ->
        (* X r<id>:<k> | u<id> : external-type table operations *)
        (match a.[0] with
         | 'r' ->
           let b = String.sub a 1 (String.length a - 1) in
           let i = String.rindex b ':' in
           let k = int_of_string (String.sub b (i + 1) (String.length b - i - 1)) in
           if k = 4 then "0" else begin tab := ext_register !tab (z_of_dec (String.sub b 0 i)) (z_of_int k); "1" end
         | 'u' -> tab := ext_unregister !tab (z_of_dec (String.sub a 1 (String.length a - 1))); "-"
         | _ -> "badop")
      | 'F' -> handles.(int_of_string a) <- None; "freed"
      | 'H' ->
        let (h, p) = parse_ref a in
        (match handles.(h) with
         | Some t when nav t p <> None ->
           let t' = update t p (hash_cache c no_ext_hash) in
           handles.(h) <- Some t';
           (match nav t' p with Some (Node (_, _, _, _, hv)) -> hex_of_z64 hv | None -> "nonode")
         | _ -> "nonode")
      | 'E' ->
        (match String.split_on_char ',' a with
         | [x; y] ->
           (match get_ref x, get_ref y with
            | Some nx, Some ny -> if x = y then "1" else if eqf nx ny then "1" else "0"
            | _ -> "nonode")
         | _ -> "badop")
      | 'L' | 'K' | 'S' ->
        (match String.split_on_char ',' a with
         | [x; y] ->
           (match get_ref x, get_ref y with
            | Some coll, Some key ->
              if k = 'L' then (match map_lookup c no_ext_equal coll key with
                  | Some i -> Printf.sprintf "idx%d" (let rec cnt (x : nat) = match x with O -> 0 | S y -> 1 + cnt y in cnt i)
                  | None -> "none")
              else if k = 'K' then (if map_contains c no_ext_equal coll key then "1" else "0")
              else (if set_contains c no_ext_equal coll key then "1" else "0")
            | _ -> "nonode")
         | _ -> "badop")
      | 'W' | 'N' | 'T' ->
        (match String.split_on_char ',' a with
         | x :: args ->
           (match get_ref x with
            | Some coll ->
              let bs h = Array.to_list (Array.map (fun v -> byte_tab.(v)) (bytes_of_hex h)) in
              let r = (match k, args with
                  | 'W', [nm] -> map_get_keyword c no_ext_equal coll (bs nm)
                  | 'T', [key] -> map_get_string_key c no_ext_equal coll (bs key)
                  | 'N', [ns; nm] -> map_get_ns_keyword c no_ext_equal coll (bs ns) (bs nm)
                  | _ -> None) in
              (match r with
               | Some i -> Printf.sprintf "idx%d" (let rec cnt (x : nat) = match x with O -> 0 | S y -> 1 + cnt y in cnt i)
               | None -> "none")
            | None -> "nonode")
         | _ -> "badop")
      | 'G' ->
        (match get_ref a with
         | Some (Node (v, _, _, _, _)) ->
           (match string_get c v with
            | None -> "NULL"
            | Some (bs, len) -> Printf.sprintf "%d:%s" (int_of_n len) (hex_of_bytes bs))
         | None -> "nonode")
      | 'N' ->
        (match get_ref a with
         | Some (Node (VBigDec (neg, ds), _, _, _, _)) ->
           (* strtod on (at most 511 bytes of) the stored text, then the sign: edn_number_as_double *)
           let rec take n l = if n = 0 then [] else (match l with [] -> [] | x :: t -> x :: take (n - 1) t) in
           let h = hex_of_z64 (sf_to_bits (strtod_model (take 511 ds))) in
           if neg then (let c0 = int_of_string ("0x" ^ String.sub h 0 1) in Printf.sprintf "%x%s" (c0 lxor 8) (String.sub h 1 15)) else h
         | Some _ -> "na"
         | None -> "na")
      | 'Q' ->
        (match String.split_on_char ',' a with
         | [x; h] ->
           (match get_ref x with
            | Some (Node (v, _, _, _, _)) ->
              let want = Array.to_list (Array.map (fun q -> byte_tab.(q)) (bytes_of_hex h)) in
              (match string_get c v with
               | Some (bs, _) -> if bs = want then "1" else "0"
               | None -> "0")
            | None -> "0")
         | _ -> "badop")
      | 'D' ->
        (match get_ref a with
         | Some nd -> let b = Buffer.create 64 in dump b nd; strip_ranges_s (Buffer.contents b)
         | None -> "nonode")
      | _ -> "badop") ops in
  String.concat ";" outs

let run_reg_ops (text : string) : string =
  let reg = ref reg_empty in
  String.concat ";" (List.map (fun op ->
      let k = op.[0] in
      let a = String.sub op 1 (String.length op - 1) in
      match k with
      | 'r' ->
        let i = String.rindex a ':' in
        reg := reg_register !reg (coq_bytes_of_string (String.sub a 0 i))
            (z_of_int (int_of_string (String.sub a (i + 1) (String.length a - i - 1))));
        "1"
      | 'u' -> reg := reg_unregister !reg (coq_bytes_of_string a); "-"
      | 'l' -> (match reg_lookup !reg (coq_bytes_of_string a) with
          | Some h -> "h" ^ string_of_int (int_of_z h) | None -> "none")
      | _ -> "badop") (List.filter (fun s -> s <> "") (String.split_on_char ';' text)))

let run_ext_ops (text : string) : string =
  let tab = ref [] in
  String.concat ";" (List.map (fun op ->
      let k = op.[0] in
      let a = String.sub op 1 (String.length op - 1) in
      match k with
      | 'r' ->
        let i = String.rindex a ':' in
        let k = int_of_string (String.sub a (i + 1) (String.length a - i - 1)) in
        if k = 4 then "0"            (* no equality callback: refused, table unchanged *)
        else begin
          tab := ext_register !tab (z_of_dec (String.sub a 0 i)) (z_of_int k);
          "1"
        end
      | 'u' -> tab := ext_unregister !tab (z_of_dec a); "-"
      | 'l' -> (match ext_lookup !tab (z_of_dec a) with
          | Some kk -> (match int_of_z kk with 0 -> "k00" | 1 -> "k11" | 2 -> "k0n" | 3 -> "k1n" | _ -> "k??")
          | None -> "none")
      | _ -> "badop") (List.filter (fun s -> s <> "") (String.split_on_char ';' text)))

let run_arena (text : string) : string =
  let a = ref arena_new in
  (* libc can provide any block below 2^40 bytes in this model *)
  let malloc_ok (sz : z) = Z.ltb sz (Z.pow (z_of_int 2) (z_of_int 40)) in
  String.concat ";" (List.map (fun tok ->
      let req =
        if tok.[0] = 'M' then Z.sub (Z.sub (Z.pow (z_of_int 2) (z_of_int 64)) (z_of_int 1))
            (z_of_dec (String.sub tok 1 (String.length tok - 1)))
        else z_of_dec tok in
      let (r, a') = arena_alloc malloc_ok !a req in
      a := a';
      match r with Some _ -> "ok" | None -> "NULL") (String.split_on_char ',' text))

let pos3 ((a, b), c) = Printf.sprintf "%d,%d,%d" (int_of_n a) (int_of_n b) (int_of_n c)

let show_doc_result (o : opts) (r : result res) (verbose : bool) : string =
  match r with
  | UBx site -> "UB " ^ (String.concat "" (List.map (fun c -> String.make 1 c) [])) ^
                (let b = Buffer.create 16 in
                 let rec go (s : Model.string) = match s with EmptyString -> () | String (a, t) ->
                   (let Ascii (b0,b1,b2,b3,b4,b5,b6,b7) = a in
                    let v = List.fold_left (fun acc bit -> acc * 2 + (if bit then 1 else 0)) 0 [b7;b6;b5;b4;b3;b2;b1;b0] in
                    Buffer.add_char b (Char.chr v)); go t in go site; Buffer.contents b)
  | OOBx _ -> "OOB"
  | OutOfFuel -> "FUEL"
  | Ret (res, _) ->
    let st = res.r_state in
    let calls =
      let cs = List.rev st.calls in
      Printf.sprintf " calls=%d%s" (List.length cs)
        (String.concat "" (List.map (fun cl ->
             let h = match o.lookup_tag cl.call_tag with Some z -> int_of_z z | None -> -1 in
             let Node (_, rs, _, _, _) = cl.call_arg in
             Printf.sprintf ":h%d@%d" h (int_of_n rs)) cs)) in
    let ghost = if verbose then Printf.sprintf " nest=%d" (let rec c (x : nat) = match x with O -> 0 | S y -> 1 + c y in c st.max_nest) else "" in
    if res.r_eof then "EOFVALUE" ^ calls ^ ghost
    else
      match res.r_value, res.r_err with
      | Some v, EOk -> let b = Buffer.create 64 in dump b v; "OK " ^ Buffer.contents b ^ calls ^ ghost
      | None, EOk -> "NEITHER" ^ calls
      | Some _, e -> "BOTH " ^ ecode_name e ^ calls
      | None, e ->
        Printf.sprintf "ERR %s %s %s %s%s%s" (ecode_name e) (msg_str res.r_msg) (pos3 res.r_start)
          (pos3 res.r_end) calls ghost

let () =
  let cfgname = if Array.length Sys.argv > 1 then Sys.argv.(1) else "00" in
  let verbose = Array.length Sys.argv > 2 && Sys.argv.(2) = "-v" in
  the_cfg := (match cfgname with "00" -> cfg00 | "10" -> cfg10 | "01" -> cfg01 | "11" -> cfg11
                               | _ -> failwith "cfg");
  let c = !the_cfg in
  (try
     while true do
       let line = input_line stdin in
       let tok = List.filter (fun s -> s <> "") (String.split_on_char ' ' line) in
       let out =
         try
           match tok with
           | [] -> ""
           | ["skipws"; h; p; e] ->
             let a = bytes_of_hex h in
             string_of_int (int_of_n (skip_ws (mem_of a) (n_of_int (int_of_string p)) (n_of_int (int_of_string e))))
           | ["findquote"; h; p; e] ->
             let a = bytes_of_hex h in
             (match find_quote (mem_of a) (n_of_int (int_of_string p)) (n_of_int (int_of_string e)) with
              | None -> "NULL"
              | Some (q, f) -> Printf.sprintf "%d %d" (int_of_n q) (if f then 1 else 0))
           | ["digits"; h; p; e] ->
             let a = bytes_of_hex h in
             string_of_int (int_of_n (scan_digits (mem_of a) (n_of_int (int_of_string p)) (n_of_int (int_of_string e))))
           | ["ident"; h; p; e] ->
             let a = bytes_of_hex h in
             (match split_identifier (mem_of a) (n_of_int (int_of_string e)) (n_of_int (int_of_string p)) with
              | None -> "INVALID"
              | Some ((len, ns), (no, nl)) ->
                Printf.sprintf "%d %s name=%d+%d" (int_of_string p + int_of_n len)
                  (match ns with None -> "ns=-" | Some (a, b) -> Printf.sprintf "ns=%d+%d" (int_of_n a) (int_of_n b))
                  (int_of_n no) (int_of_n nl))
           | ["lfindex"; h] ->
             let a = bytes_of_hex h in
             let l = lf_index (mem_of a) (n_of_int (Array.length a)) in
             Printf.sprintf "%d:%s" (List.length l) (String.concat "," (List.map (fun x -> string_of_int (int_of_n x)) l))
           | ["freenull"] -> "ok"
           | "docreg" :: h :: reg :: mode :: eof :: rest
           | "doc" :: h :: reg :: mode :: eof :: rest ->
             let a = bytes_of_hex h in
             let len = match rest with [l] -> int_of_string l | _ -> Array.length a in
             let o = opts_of (parse_registry reg) (z_of_int (int_of_string mode)) (eof <> "0") in
             show_doc_result o (run_doc c o (mem_of a) (n_of_int len)) verbose
           | ["int64"; h; radix; neg] ->
             let a = bytes_of_hex h in
             (match parse_int64 c (Array.to_list (Array.map (fun x -> byte_tab.(x)) a))
                      (z_of_int (int_of_string radix)) (neg <> "0") with
              | IOk v -> "OK " ^ dec_of_z v
              | IOverflow -> "OVERFLOW"
              | IUB _ -> "UB")
           | ["swar"; h] ->
             let a = bytes_of_hex h in
             let l = Array.to_list (Array.map (fun x -> byte_tab.(x)) a) in
             let v = le_val l in
             (match eight_digits_check v with
              | Z0 -> "0"
              | _ -> "1 " ^ dec_of_z (eight_digits_value v))
           | ["double"; h] ->
             let a = bytes_of_hex h in
             (match parse_double c (Array.to_list (Array.map (fun x -> byte_tab.(x)) a)) with
              | DOk f -> hex_of_z64 (sf_to_bits f)
              | DUB _ -> "UB")
           | ["gcd"; x; y] ->
             if not c.clj then "NA" else
             (match ratio_gcd (z_of_dec x) (z_of_dec y) with
              | Some g -> dec_of_z g
              | None -> "NONTERMINATION")
           | ["script"; t] -> run_script c t
           | ["reg"; t] -> run_reg_ops t
           | ["ext"; t] -> run_ext_ops t
           | ["arena"; t] -> run_arena t
           | cmd :: _ -> "BADCMD " ^ cmd
         with Failure m -> "DRIVERFAIL " ^ m
       in
       print_string out; print_char '\n'; flush stdout
     done
   with End_of_file -> ())
