/* harness/h_dump.h -- document-level commands of the C harness: canonical dump of a value
 * tree through the public accessors (plus the documented internal string flag), the
 * built-in tag handlers (same behaviour as Model/Configs.v builtin_handler), and the `doc`
 * command.  Included by h_main.c after the unity include of the repository sources. */

static void dump_hex(const char* p, size_t n) {
    if (n == 0) { printf("-"); return; }
    for (size_t i = 0; i < n; i++) printf("%02x", (unsigned char) p[i]);
}

static void dump_value(const edn_value_t* v) {
    size_t rs = 0, re = 0;
    edn_source_position(v, &rs, &re);
    switch (edn_type(v)) {
        case EDN_TYPE_NIL: printf("nil"); break;
        case EDN_TYPE_BOOL: { bool b = false; edn_bool_get(v, &b); printf(b ? "true" : "false"); break; }
        case EDN_TYPE_INT: { int64_t i = 0; edn_int64_get(v, &i); printf("int:%" PRId64, i); break; }
        case EDN_TYPE_BIGINT: {
            size_t len = 0; bool neg = false; uint8_t radix = 0;
            const char* d = edn_bigint_get(v, &len, &neg, &radix);
            printf("bigint:%d:%d:", (int) neg, (int) radix);
            if (d) dump_hex(d, len); else printf("NULL");
            {   /* the accessor is lazy (digit cleaning): a repeated call must give the same answer */
                size_t len2 = 0; bool neg2 = false; uint8_t radix2 = 0;
                const char* d2 = edn_bigint_get(v, &len2, &neg2, &radix2);
                if (d2 != d || len2 != len || neg2 != neg || radix2 != radix) printf("!SECOND-CALL-DIFFERS(%zu)", len2);
            }
            break;
        }
        case EDN_TYPE_FLOAT: {
            double d = 0; edn_double_get(v, &d);
            uint64_t u; memcpy(&u, &d, 8);
            if (d != d) u = 0x7FF8000000000000ULL;
            printf("float:%016" PRIx64, u);
            break;
        }
        case EDN_TYPE_BIGDEC: {
            size_t len = 0; bool neg = false;
            const char* d = edn_bigdec_get(v, &len, &neg);
            printf("bigdec:%d:", (int) neg);
            if (d) dump_hex(d, len); else printf("NULL");
            {
                size_t len2 = 0; bool neg2 = false;
                const char* d2 = edn_bigdec_get(v, &len2, &neg2);
                if (d2 != d || len2 != len || neg2 != neg) printf("!SECOND-CALL-DIFFERS(%zu)", len2);
            }
            break;
        }
#ifdef EDN_ENABLE_CLOJURE_EXTENSION
        case EDN_TYPE_RATIO: {
            int64_t a = 0, b = 0; edn_ratio_get(v, &a, &b);
            printf("ratio:%" PRId64 "/%" PRId64, a, b);
            break;
        }
        case EDN_TYPE_BIGRATIO: {
            const char *a = NULL, *b = NULL; size_t al = 0, bl = 0; bool neg = false;
            edn_bigratio_get(v, &a, &al, &neg, &b, &bl);
            printf("bigratio:%d:", (int) neg); dump_hex(a, al); printf("/"); dump_hex(b, bl);
            {
                const char *a2 = NULL, *b2 = NULL; size_t al2 = 0, bl2 = 0; bool neg2 = false;
                edn_bigratio_get(v, &a2, &al2, &neg2, &b2, &bl2);
                if (a2 != a || b2 != b || al2 != al || bl2 != bl || neg2 != neg) printf("!SECOND-CALL-DIFFERS");
            }
            break;
        }
#endif
        case EDN_TYPE_CHARACTER: { uint32_t c = 0; edn_character_get(v, &c); printf("char:%u", c); break; }
        case EDN_TYPE_STRING: {
            /* raw bytes and escape flag (internal, documented), then what edn_string_get says */
            printf("str:%d:", (int) edn_string_has_escapes(v));
            dump_hex(v->as.string.data, edn_string_get_length(v));
            printf(":");
            size_t len = 0;
            const char* s = edn_string_get(v, &len);
            if (!s) printf("NULL");
            else {
                printf("%zu:", len);
                dump_hex(s, len);
                /* the buffer must be NUL-terminated at the reported length */
                if (s[len] != '\0') printf("!NOTERM");
            }
            break;
        }
        case EDN_TYPE_SYMBOL:
        case EDN_TYPE_KEYWORD: {
            const char *ns = NULL, *nm = NULL; size_t nsl = 0, nml = 0;
            if (edn_type(v) == EDN_TYPE_SYMBOL) { edn_symbol_get(v, &ns, &nsl, &nm, &nml); printf("sym:"); }
            else { edn_keyword_get(v, &ns, &nsl, &nm, &nml); printf("kw:"); }
            if (ns) dump_hex(ns, nsl); else printf("~");
            printf(":"); dump_hex(nm, nml);
            break;
        }
        case EDN_TYPE_LIST:
            printf("(list");
            for (size_t i = 0; i < edn_list_count(v); i++) { printf(" "); dump_value(edn_list_get(v, i)); }
            printf(")"); break;
        case EDN_TYPE_VECTOR:
            printf("(vec");
            for (size_t i = 0; i < edn_vector_count(v); i++) { printf(" "); dump_value(edn_vector_get(v, i)); }
            printf(")"); break;
        case EDN_TYPE_SET:
            printf("(set");
            for (size_t i = 0; i < edn_set_count(v); i++) { printf(" "); dump_value(edn_set_get(v, i)); }
            printf(")"); break;
        case EDN_TYPE_MAP:
            printf("(map");
            for (size_t i = 0; i < edn_map_count(v); i++) {
                printf(" "); dump_value(edn_map_get_key(v, i));
                printf(" "); dump_value(edn_map_get_value(v, i));
            }
            printf(")"); break;
        case EDN_TYPE_TAGGED: {
            const char* tag = NULL; size_t tl = 0; edn_value_t* inner = NULL;
            edn_tagged_get(v, &tag, &tl, &inner);
            printf("(tag:"); dump_hex(tag, tl); printf(" "); dump_value(inner); printf(")");
            break;
        }
        case EDN_TYPE_EXTERNAL: {
            void* data = NULL; uint32_t tid = 0; edn_external_get(v, &data, &tid);
            printf("ext:%u:%zu", tid, (size_t) (uintptr_t) data);
            break;
        }
        default: printf("?type%d", (int) edn_type(v));
    }
    printf("@%zu-%zu", rs, re);
#ifdef EDN_ENABLE_CLOJURE_EXTENSION
    if (edn_value_has_meta(v)) { printf("^"); dump_value(edn_value_meta(v)); }
#endif
}

static const char* err_name(edn_error_t e) {
    switch (e) {
        case EDN_OK: return "OK";
        case EDN_ERROR_INVALID_SYNTAX: return "INVALID_SYNTAX";
        case EDN_ERROR_UNEXPECTED_EOF: return "UNEXPECTED_EOF";
        case EDN_ERROR_UNTERMINATED_COLLECTION: return "UNTERMINATED_COLLECTION";
        case EDN_ERROR_OUT_OF_MEMORY: return "OUT_OF_MEMORY";
        case EDN_ERROR_INVALID_NUMBER: return "INVALID_NUMBER";
        case EDN_ERROR_INVALID_STRING: return "INVALID_STRING";
        case EDN_ERROR_INVALID_CHARACTER: return "INVALID_CHARACTER";
        case EDN_ERROR_INVALID_DISCARD: return "INVALID_DISCARD";
        case EDN_ERROR_UNMATCHED_DELIMITER: return "UNMATCHED_DELIMITER";
        case EDN_ERROR_UNKNOWN_TAG: return "UNKNOWN_TAG";
        case EDN_ERROR_DUPLICATE_KEY: return "DUPLICATE_KEY";
        case EDN_ERROR_DUPLICATE_ELEMENT: return "DUPLICATE_ELEMENT";
    }
    return "?";
}

/* ---- built-in tag handlers; every invocation is logged ---- */
#define MAXCALLS 4096
static __thread struct { int h; size_t at; } g_calls[MAXCALLS];
static __thread int g_ncalls = 0;
static void log_call(int h, edn_value_t* v) {
    size_t rs = 0, re = 0; edn_source_position(v, &rs, &re);
    if (g_ncalls < MAXCALLS) { g_calls[g_ncalls].h = h; g_calls[g_ncalls].at = rs; }
    g_ncalls++;
}
static edn_value_t* h0(edn_value_t* v, edn_arena_t* a, const char** msg) { (void) a; (void) msg; log_call(0, v); return v; }
static edn_value_t* h1(edn_value_t* v, edn_arena_t* a, const char** msg) {
    (void) msg; log_call(1, v);
    edn_value_t* r = edn_arena_alloc_value(a);
    edn_value_t** els = (edn_value_t**) edn_arena_alloc(a, sizeof(edn_value_t*));
    if (!r || !els) return NULL;
    els[0] = v;
    r->type = EDN_TYPE_VECTOR; r->as.vector.elements = els; r->as.vector.count = 1; r->arena = a;
    return r;
}
static edn_value_t* h2(edn_value_t* v, edn_arena_t* a, const char** msg) { (void) a; log_call(2, v); *msg = "boom"; return NULL; }
static edn_value_t* h3(edn_value_t* v, edn_arena_t* a, const char** msg) { (void) a; (void) msg; log_call(3, v); return NULL; }
static __thread int g_misaligned = 0;   /* an arena block handed to a handler was not 8-byte aligned */
static edn_value_t* h4(edn_value_t* v, edn_arena_t* a, const char** msg) {
    (void) msg; log_call(4, v);
    /* a handler that needs scratch memory: when the operand is an integer n in 1..2^20 it requests n bytes
       from the arena (any size, odd ones included) and fills them, as the public API allows */
    int64_t n = 0;
    if (edn_type(v) == EDN_TYPE_INT && edn_int64_get(v, &n) && n >= 1 && n <= (1 << 20)) {
        unsigned char* p = (unsigned char*) edn_arena_alloc(a, (size_t) n);
        if (p) {
            if (((uintptr_t) p & 7u) != 0) g_misaligned = 1;
            memset(p, 0xAB, (size_t) n);
        }
    }
    /* the external value's data "pointer" is the operand itself when it is an integer 1..2^20, else 42 */
    edn_value_t* r = edn_external_create(a, (void*) (uintptr_t) ((edn_type(v) == EDN_TYPE_INT && n >= 1 && n <= (1 << 20)) ? n : 42), 7);
    if (r && ((uintptr_t) r & 7u) != 0) g_misaligned = 1;
    return r;
}
static edn_value_t* h5(edn_value_t* v, edn_arena_t* a, const char** msg) {
    (void) msg; log_call(5, v);
    edn_value_t* r = edn_arena_alloc_value(a);
    if (!r) return NULL;
    r->type = EDN_TYPE_KEYWORD; r->as.keyword.namespace = NULL; r->as.keyword.ns_length = 0;
    r->as.keyword.name = "replaced"; r->as.keyword.name_length = 8; r->arena = a;
    return r;
}
static edn_reader_fn g_handlers[6] = {h0, h1, h2, h3, h4, h5};

static edn_reader_registry_t* registry_from_spec(const char* spec) {
    if (!strcmp(spec, "-")) return NULL;
    edn_reader_registry_t* reg = edn_reader_registry_create();
    if (!strcmp(spec, "+")) return reg;
    char* copy = strdup(spec);
    for (char* item = strtok(copy, ","); item; item = strtok(NULL, ",")) {
        char* colon = strrchr(item, ':');
        *colon = 0;
        int h = atoi(colon + 1);
        edn_reader_register(reg, item, g_handlers[h > 5 ? 5 : h]);
    }
    free(copy);
    return reg;
}

static void print_calls(void) {
    printf(" calls=%d", g_ncalls);
    for (int i = 0; i < g_ncalls && i < MAXCALLS; i++) printf(":h%d@%zu", g_calls[i].h, g_calls[i].at);
}

static edn_value_t g_eof_marker;

static void print_result(edn_result_t r, const char* input, size_t n, edn_parse_options_t* opt) {
    (void) input; (void) n;
    if (opt && opt->eof_value && r.value == opt->eof_value && r.error == EDN_OK) {
        printf("EOFVALUE"); print_calls(); printf("\n"); return;
    }
    if (r.value && r.error == EDN_OK) { printf("OK "); dump_value(r.value); }
    else if (!r.value && r.error == EDN_OK) printf("NEITHER");
    else if (r.value && r.error != EDN_OK) printf("BOTH %s", err_name(r.error));
    else {
        printf("ERR %s ", err_name(r.error));
        if (!r.error_message) printf("nomsg");
        else if (!strcmp(r.error_message, "boom")) printf("hmsg:626f6f6d");
        else printf("msg");
        printf(" %zu,%zu,%zu %zu,%zu,%zu", r.error_start.offset, r.error_start.line, r.error_start.column,
               r.error_end.offset, r.error_end.line, r.error_end.column);
    }
    print_calls();
    if (g_misaligned) { printf(" !MISALIGNED-ARENA-BLOCK"); g_misaligned = 0; }
    if (r.value && r.error == EDN_OK && ((uintptr_t) r.value & 7u) != 0) printf(" !MISALIGNED-VALUE");
    printf("\n");
}

#include <pthread.h>
static int g_small_stack = 0;   /* run each document read on a thread with a 1 MiB stack */

typedef struct { const char* p; size_t len; edn_parse_options_t* opt; edn_result_t r; } read_job_t;
static void* read_job(void* arg) {
    read_job_t* j = (read_job_t*) arg;
    j->r = edn_read_with_options(j->p, j->len, j->opt);
    return NULL;
}
static edn_result_t read_maybe_small_stack(const char* p, size_t len, edn_parse_options_t* opt) {
    if (!g_small_stack) return edn_read_with_options(p, len, opt);
    read_job_t j = {p, len, opt, {0}};
    pthread_attr_t at;
    pthread_attr_init(&at);
    pthread_attr_setstacksize(&at, 1 << 20);
    pthread_t th;
    pthread_create(&th, &at, read_job, &j);
    pthread_join(th, NULL);
    pthread_attr_destroy(&at);
    return j.r;
}

/* threads: N readers over K documents (thread i reads document i mod K, 3 times), sharing one
 * read-only registry; every dump must equal the single-threaded dump of the same document made
 * before the threads start, and the input buffers must be unchanged afterwards */
typedef struct { const char* p; size_t len; edn_parse_options_t* opt; const char* want; size_t wantlen; int bad; } th_job_t;
static pthread_mutex_t g_print_mu = PTHREAD_MUTEX_INITIALIZER;
static char* dump_to_string(edn_result_t r, size_t* outlen) {
    pthread_mutex_lock(&g_print_mu);
    char* mem = NULL; size_t len = 0;
    FILE* save = stdout; FILE* ms = open_memstream(&mem, &len);
    stdout = ms;
    if (r.value) dump_value(r.value);
    else printf("ERR %s %s %zu,%zu,%zu %zu,%zu,%zu", err_name(r.error), r.error_message ? r.error_message : "NULL",
                r.error_start.offset, r.error_start.line, r.error_start.column,
                r.error_end.offset, r.error_end.line, r.error_end.column);
    fflush(ms); stdout = save; fclose(ms);
    pthread_mutex_unlock(&g_print_mu);
    *outlen = len;
    return mem;
}
static void* th_job(void* arg) {
    th_job_t* j = (th_job_t*) arg;
    for (int rep = 0; rep < 3; rep++) {
        edn_result_t r = edn_read_with_options(j->p, j->len, j->opt);
        size_t len = 0;
        char* mem = dump_to_string(r, &len);
        if (len != j->wantlen || memcmp(mem, j->want, len)) j->bad = 1;
        free(mem);
        if (r.value) edn_free(r.value);
    }
    return NULL;
}

static int h_dump_command(const char* cmd, int nt, char** tok) {
    if (!strcmp(cmd, "threads") && nt == 4) {
        int n = atoi(tok[1]);
        enum { MAXDOC = 16 };
        buf_t bufs[MAXDOC]; char* copies[MAXDOC]; char* want[MAXDOC]; size_t wantlen[MAXDOC];
        int k = 0;
        char* sp = tok[2];
        while (sp && *sp && k < MAXDOC) {
            char* comma = strchr(sp, ',');
            if (comma) *comma = 0;
            bufs[k] = buf_from_hex(sp);
            copies[k] = (char*) malloc(bufs[k].n + 1);
            memcpy(copies[k], bufs[k].p, bufs[k].n);
            k++;
            sp = comma ? comma + 1 : NULL;
        }
        edn_reader_registry_t* reg = registry_from_spec(tok[3]);
        edn_parse_options_t opt; memset(&opt, 0, sizeof opt); opt.reader_registry = reg;
        for (int d = 0; d < k; d++) {
            edn_result_t r = edn_read_with_options(bufs[d].p, bufs[d].n, &opt);
            want[d] = dump_to_string(r, &wantlen[d]);
            if (r.value) edn_free(r.value);
        }
        th_job_t jobs[64]; pthread_t th[64];
        if (n > 64) n = 64;
        for (int i = 0; i < n; i++) {
            int d = i % k;
            jobs[i].p = bufs[d].p; jobs[i].len = bufs[d].n; jobs[i].opt = &opt;
            jobs[i].want = want[d]; jobs[i].wantlen = wantlen[d]; jobs[i].bad = 0;
            pthread_create(&th[i], NULL, th_job, &jobs[i]);
        }
        int same = 1, modified = 0;
        for (int i = 0; i < n; i++) pthread_join(th[i], NULL);
        for (int i = 0; i < n; i++) if (jobs[i].bad) same = 0;
        for (int d = 0; d < k; d++) if (memcmp(copies[d], bufs[d].p, bufs[d].n)) modified = 1;
        printf("%s%s", same ? "SAME" : "DIFFERENT", modified ? " MODIFIED" : "");
        for (int d = 0; d < k; d++) { printf(" | "); fwrite(want[d], 1, wantlen[d], stdout); }
        printf("\n");
        for (int d = 0; d < k; d++) { free(want[d]); free(copies[d]); buf_free(&bufs[d]); }
        if (reg) edn_reader_registry_destroy(reg);
        return 1;
    }
    if (!strcmp(cmd, "freenull") && nt == 1) { edn_free(NULL); printf("ok\n"); return 1; }
#ifdef VERIF_FAILINJECT
    if ((!strcmp(cmd, "failcount") || !strcmp(cmd, "failat") || !strcmp(cmd, "failfrom")) && nt >= 2) {
        /* failcount <hex> <opts...> : number of allocation requests of a normal run
           failat K <hex> / failfrom K <hex> : run with request K (or all from K) failing, then
           exercise the lazy accessors under the same schedule */
        int isc = !strcmp(cmd, "failcount");
        long k = isc ? -1 : atol(tok[1]);
        buf_t b = buf_from_hex(tok[isc ? 1 : 2]);
        g_alloc_no = 0; g_fail_one = -1; g_fail_from = -1; g_nlibc = 0;
        if (!strcmp(cmd, "failat")) g_fail_one = k;
        if (!strcmp(cmd, "failfrom")) g_fail_from = k;
        g_fail_armed = 1;
        edn_result_t r = b.n ? edn_read(b.p, b.n) : edn_read("", 0);
        if (isc) {
            /* count, then the numbers of the requests that went to libc (block growth, scratch buffers, tables) */
            g_fail_armed = 0; printf("%ld", g_alloc_no);
            for (int i = 0; i < g_nlibc; i++) printf("%c%ld", i ? ',' : '/', g_libc_idx[i]);
            printf(" ");
        }
        g_ncalls = 0;
        /* the dump calls the lazy accessors (string get, bigint get) under the same schedule */
        if (r.value && r.error == EDN_OK) { printf("OK "); dump_value(r.value); printf("\n"); }
        else if (!r.value && r.error != EDN_OK) printf("ERR %s %s\n", err_name(r.error), r.error_message ? "msg" : "nomsg");
        else printf("%s\n", r.value ? "BOTH" : "NEITHER");
        g_fail_armed = 0;
        if (r.value) edn_free(r.value);
        buf_free(&b);
        return 1;
    }
#endif
    if (!strcmp(cmd, "docreg") && nt == 5) {
        /* like doc, but the registry is destroyed BEFORE the value is inspected */
        buf_t b = buf_from_hex(tok[1]);
        edn_reader_registry_t* reg = registry_from_spec(tok[2]);
        edn_parse_options_t opt; memset(&opt, 0, sizeof opt);
        opt.reader_registry = reg; opt.default_reader_mode = (edn_default_reader_mode_t) atoi(tok[3]);
        opt.eof_value = atoi(tok[4]) ? &g_eof_marker : NULL;
        g_ncalls = 0;
        edn_result_t r = b.n ? edn_read_with_options(b.p, b.n, &opt) : edn_read_with_options("", 0, &opt);
        if (reg) edn_reader_registry_destroy(reg);
        print_result(r, b.p, b.n, &opt);
        if (r.value && r.value != &g_eof_marker) edn_free(r.value);
        buf_free(&b);
        return 1;
    }
    if (!strcmp(cmd, "doc") && (nt == 5 || nt == 6)) {
        buf_t b = buf_from_hex(tok[1]);
        edn_reader_registry_t* reg = registry_from_spec(tok[2]);
        edn_parse_options_t opt;
        memset(&opt, 0, sizeof opt);
        opt.reader_registry = reg;
        opt.default_reader_mode = (edn_default_reader_mode_t) atoi(tok[3]);
        edn_value_t* lib_eof = NULL;
        if (atoi(tok[4]) == 2) { edn_result_t er = edn_read(":eof", 4); lib_eof = er.value; }   /* the README idiom */
        opt.eof_value = atoi(tok[4]) == 2 ? lib_eof : atoi(tok[4]) ? &g_eof_marker : NULL;
        g_ncalls = 0;
        edn_result_t r;
        if (b.n == 0) {
            /* the empty document: length 0 means strlen(), so pass the empty C string */
            static const char empty[1] = {0};
            r = edn_read_with_options(empty, 0, &opt);
        } else {
            /* optional 6th token: explicit length shorter than the buffer (bytes follow) */
            size_t len = (nt == 6) ? (size_t) strtoull(tok[5], 0, 10) : b.n;
            r = read_maybe_small_stack(b.p, len, &opt);
        }
        print_result(r, b.p, b.n, &opt);
        if (r.value && r.value != &g_eof_marker && r.value != lib_eof) edn_free(r.value);
        if (lib_eof) edn_free(lib_eof);
        if (reg) edn_reader_registry_destroy(reg);
        buf_free(&b);
        return 1;
    }
    return 0;
}
