/* harness/h_script.h -- operation scripts over handles (histories of hash / equal / lookup /
 * string-get calls), registry and external-type-table operation sequences, arena request
 * sequences.  One `script` line = ops separated by ';', one result per op joined by ';'. */

#define MAXH 16
static edn_value_t* g_h[MAXH];
static buf_t g_hbuf[MAXH];

static edn_value_t* nav(edn_value_t* v, const char* path) {
    /* path: dot-separated child indices; map children are k0,v0,k1,v1..; 'm' = metadata */
    while (v && *path) {
        if (*path == '.') { path++; continue; }
        if (*path == 'm') {
#ifdef EDN_ENABLE_CLOJURE_EXTENSION
            v = edn_value_meta(v);
#else
            v = NULL;
#endif
            path++;
            continue;
        }
        size_t i = strtoull(path, (char**) &path, 10);
        switch (edn_type(v)) {
            case EDN_TYPE_LIST: v = edn_list_get(v, i); break;
            case EDN_TYPE_VECTOR: v = edn_vector_get(v, i); break;
            case EDN_TYPE_SET: v = edn_set_get(v, i); break;
            case EDN_TYPE_MAP: v = (i % 2 == 0) ? edn_map_get_key(v, i / 2) : edn_map_get_value(v, i / 2); break;
            case EDN_TYPE_TAGGED: { const char* t; size_t tl; edn_value_t* in = NULL; edn_tagged_get(v, &t, &tl, &in); v = in; break; }
            default: v = NULL;
        }
    }
    return v;
}

/* "<h>.<path>" -> node */
static edn_value_t* ref(const char* s, const char** rest) {
    int h = (int) strtol(s, (char**) &s, 10);
    char path[256];
    size_t n = 0;
    while (*s && *s != ',' && *s != ';' && n < sizeof(path) - 1) path[n++] = *s++;
    path[n] = 0;
    if (rest) *rest = s;
    if (h < 0 || h >= MAXH) return NULL;
    return nav(g_h[h], path);
}

static void dump_noranges(const edn_value_t* v);

/* external-type callbacks by kind k: equality 0/2 = same pointer, 1/3 = always, 5/6 = equal modulo 1000, 4 = none;
   hash 0 = the pointer, 1 = constant 7, 5 = pointer modulo 1000, 2/3/6 = none (the library hashes the pointer) */
static bool xeq0(const void* a, const void* b) { return a == b; }
static bool xeq1(const void* a, const void* b) { (void) a; (void) b; return true; }
static bool xeq2(const void* a, const void* b) { return ((uintptr_t) a % 1000) == ((uintptr_t) b % 1000); }
static uint64_t xh0(const void* a) { return (uint64_t) (uintptr_t) a; }
static uint64_t xh1(const void* a) { (void) a; return 7; }
static uint64_t xh2(const void* a) { return (uint64_t) ((uintptr_t) a % 1000); }
static edn_external_equal_fn ext_eq_of(int k) { return k == 4 ? NULL : (k == 1 || k == 3) ? xeq1 : (k == 5 || k == 6) ? xeq2 : xeq0; }
static edn_external_hash_fn ext_hash_of(int k) { return k == 0 ? xh0 : k == 1 ? xh1 : k == 5 ? xh2 : NULL; }
static uint32_t g_xused[64]; static int g_nxused = 0;

static void run_script(char* text) {
    int first = 1;
    const void* last_get_ptr[MAXH] = {0};
    (void) last_get_ptr;
    for (char* op = strtok(text, ";"); op; op = strtok(NULL, ";")) {
        if (!first) printf(";");
        first = 0;
        char c = op[0];
        const char* a = op + 1;
        if (c == 'P') {            /* P<h>=<hex> */
            int h = (int) strtol(a, (char**) &a, 10);
            a++;
            if (g_h[h]) { edn_free(g_h[h]); g_h[h] = NULL; }
            if (g_hbuf[h].p) buf_free(&g_hbuf[h]);
            g_hbuf[h] = buf_from_hex(a);
            edn_result_t r = g_hbuf[h].n ? edn_read(g_hbuf[h].p, g_hbuf[h].n) : edn_read("", 0);
            g_h[h] = r.value;
            printf(r.value ? "ok" : "err:%s", err_name(r.error));
        } else if (c == 'R') {     /* R<h>=<hex> : read with the registry x:4,y:0 (external values) */
            int h = (int) strtol(a, (char**) &a, 10);
            a++;
            if (g_h[h]) { edn_free(g_h[h]); g_h[h] = NULL; }
            if (g_hbuf[h].p) buf_free(&g_hbuf[h]);
            g_hbuf[h] = buf_from_hex(a);
            edn_reader_registry_t* reg = edn_reader_registry_create();     /* (registry_from_spec uses strtok) */
            edn_reader_register(reg, "x", g_handlers[4]);
            edn_reader_register(reg, "y", g_handlers[0]);
            edn_parse_options_t opt; memset(&opt, 0, sizeof opt); opt.reader_registry = reg;
            edn_result_t r = g_hbuf[h].n ? edn_read_with_options(g_hbuf[h].p, g_hbuf[h].n, &opt) : edn_read_with_options("", 0, &opt);
            edn_reader_registry_destroy(reg);
            g_h[h] = r.value;
            printf(r.value ? "ok" : "err:%s", err_name(r.error));
        } else if (c == 'X') {     /* Xr<id>:<k> | Xu<id> : external-type table (cleared at the end of the script) */
            if (a[0] == 'r') {
                char* colon = strrchr(a, ':');
                uint32_t id = (uint32_t) strtoul(a + 1, 0, 10);
                int k = atoi(colon + 1);
                printf("%d", (int) edn_external_register_type(id, ext_eq_of(k), ext_hash_of(k)));
                if (g_nxused < 64) g_xused[g_nxused++] = id;
            } else if (a[0] == 'u') { edn_external_unregister_type((uint32_t) strtoul(a + 1, 0, 10)); printf("-"); }
            else printf("badop");
        } else if (c == 'F') {     /* F<h> */
            int h = atoi(a);
            if (g_h[h]) edn_free(g_h[h]);
            g_h[h] = NULL;
            if (g_hbuf[h].p) buf_free(&g_hbuf[h]);
            printf("freed");
        } else if (c == 'H') {     /* H<ref> : hash */
            edn_value_t* v = ref(a, NULL);
            if (!v) printf("nonode"); else printf("%016" PRIx64, edn_value_hash(v));
        } else if (c == 'E') {     /* E<ref>,<ref> */
            const char* r2;
            edn_value_t* x = ref(a, &r2);
            edn_value_t* y = ref(r2 + 1, NULL);
            if (!x || !y) printf("nonode"); else printf("%d", (int) edn_value_equal(x, y));
        } else if (c == 'L' || c == 'K' || c == 'S') {   /* lookup / contains-key / set-contains */
            const char* r2;
            edn_value_t* coll = ref(a, &r2);
            edn_value_t* key = ref(r2 + 1, NULL);
            if (!coll || !key) { printf("nonode"); continue; }
            if (c == 'L') {
                edn_value_t* r = edn_map_lookup(coll, key);
                if (!r) printf("none");
                else {
                    /* report which entry it is */
                    size_t idx = (size_t) -1;
                    for (size_t i = 0; i < edn_map_count(coll); i++) if (edn_map_get_value(coll, i) == r) { idx = i; break; }
                    printf("idx%zu", idx);
                }
            } else if (c == 'K') printf("%d", (int) edn_map_contains_key(coll, key));
            else printf("%d", (int) edn_set_contains(coll, key));
        } else if (c == 'W' || c == 'N' || c == 'T') {  /* keyword / namespaced keyword / string-key helpers */
            const char* r2;
            edn_value_t* coll = ref(a, &r2);
            if (!coll) { printf("nonode"); continue; }
            char* arg = strdup(r2 + 1);
            /* arguments are hex strings (NUL-free): W<ref>,<namehex>  N<ref>,<nshex>,<namehex>  T<ref>,<keyhex> */
            char* second = strchr(arg, ',');
            if (second) *second++ = 0;
            buf_t b1 = buf_from_hex(arg);
            char* s1 = (char*) calloc(b1.n + 1, 1); memcpy(s1, b1.p, b1.n);
            edn_value_t* r = NULL;
            if (c == 'W') r = edn_map_get_keyword(coll, s1);
            else if (c == 'T') r = edn_map_get_string_key(coll, s1);
            else {
                buf_t b2 = buf_from_hex(second ? second : "-");
                char* s2 = (char*) calloc(b2.n + 1, 1); memcpy(s2, b2.p, b2.n);
                r = edn_map_get_namespaced_keyword(coll, s1, s2);
                free(s2); buf_free(&b2);
            }
            if (!r) printf("none");
            else {
                size_t idx = (size_t) -1;
                for (size_t i = 0; i < edn_map_count(coll); i++) if (edn_map_get_value(coll, i) == r) { idx = i; break; }
                printf("idx%zu", idx);
            }
            free(s1); buf_free(&b1); free(arg);
        } else if (c == 'G') {     /* G<ref> : edn_string_get twice: bytes, length, pointer stability */
            edn_value_t* v = ref(a, NULL);
            if (!v) { printf("nonode"); continue; }
            size_t l1 = 0, l2 = 0;
            const char* p1 = edn_string_get(v, &l1);
            const char* p2 = edn_string_get(v, &l2);
            if (!p1) printf("NULL%s", p2 ? "!then-nonnull" : "");
            else {
                printf("%zu:", l1); dump_hex(p1, l1);
                printf("%s%s%s", p1[l1] == 0 ? "" : "!NOTERM", p1 == p2 ? "" : "!PTRCHANGED", l1 == l2 ? "" : "!LENCHANGED");
            }
        } else if (c == 'N') {     /* N<ref> : edn_number_as_double of a big decimal (bit pattern) */
            edn_value_t* v = ref(a, NULL);
            double dd = 0;
            if (!v || edn_type(v) != EDN_TYPE_BIGDEC) printf("na");
            else if (!edn_number_as_double(v, &dd)) printf("false");
            else { uint64_t u; memcpy(&u, &dd, 8); if (dd != dd) u = 0x7FF8000000000000ULL; printf("%016" PRIx64, u); }
        } else if (c == 'Q') {     /* Q<ref>,<hex> : edn_string_equals */
            const char* r2;
            edn_value_t* v = ref(a, &r2);
            buf_t b = buf_from_hex(r2 + 1);
            char* s = (char*) calloc(b.n + 1, 1); memcpy(s, b.p, b.n);
            printf("%d", (int) edn_string_equals(v, s));
            free(s); buf_free(&b);
        } else if (c == 'D') {     /* D<ref> : dump without ranges */
            edn_value_t* v = ref(a, NULL);
            if (!v) printf("nonode"); else dump_noranges(v);
        } else printf("badop");
    }
    printf("\n");
    for (int h = 0; h < MAXH; h++) {
        if (g_h[h]) { edn_free(g_h[h]); g_h[h] = NULL; }
        if (g_hbuf[h].p) buf_free(&g_hbuf[h]);
    }
    for (int i = 0; i < g_nxused; i++) edn_external_unregister_type(g_xused[i]);
    g_nxused = 0;
}

/* dump without source ranges: type/contents only (used by scripts) */
static void dump_noranges(const edn_value_t* v) {
    /* reuse dump_value's text but strip @a-b: print into a memory stream */
    char* mem = NULL; size_t len = 0;
    FILE* save = stdout;
    FILE* ms = open_memstream(&mem, &len);
    stdout = ms;
    dump_value(v);
    fflush(ms);
    stdout = save;
    fclose(ms);
    for (size_t i = 0; i < len; i++) {
        if (mem[i] == '@') { i++; while (i < len && (mem[i] == '-' || (mem[i] >= '0' && mem[i] <= '9'))) i++; i--; continue; }
        putchar(mem[i]);
    }
    free(mem);
}

/* ---- registry operation sequences:  reg <ops>  with ops r<tag>:<h>  u<tag>  l<tag> ---- */
static void run_registry_ops(char* text) {
    edn_reader_registry_t* reg = edn_reader_registry_create();
    int first = 1;
    for (char* op = strtok(text, ";"); op; op = strtok(NULL, ";")) {
        if (!first) printf(";");
        first = 0;
        if (op[0] == 'r') {
            char* colon = strrchr(op, ':');
            *colon = 0;
            printf("%d", (int) edn_reader_register(reg, op + 1, g_handlers[atoi(colon + 1)]));
        } else if (op[0] == 'u') { edn_reader_unregister(reg, op + 1); printf("-"); }
        else if (op[0] == 'l') {
            edn_reader_fn f = edn_reader_lookup(reg, op + 1);
            int id = -1;
            for (int i = 0; i < 6; i++) if (f == g_handlers[i]) id = i;
            if (!f) printf("none"); else printf("h%d", id);
        } else printf("badop");
    }
    printf("\n");
    edn_reader_registry_destroy(reg);
}

/* ---- external type table:  ext <ops> with  r<id>:<k>  u<id>  l<id>  (k selects callbacks) ---- */
static void run_ext_ops(char* text) {
    int first = 1;
    uint32_t used[64]; int nused = 0;
    for (char* op = strtok(text, ";"); op; op = strtok(NULL, ";")) {
        if (!first) printf(";");
        first = 0;
        if (op[0] == 'r') {
            char* colon = strrchr(op, ':');
            *colon = 0;
            uint32_t id = (uint32_t) strtoul(op + 1, 0, 10);
            int k = atoi(colon + 1);
            /* k: 0 = (eq0, hash0), 1 = (eq1, hash1), 2 = (eq0, no hash), 3 = (eq1, no hash), 4 = no equality (refused) */
            printf("%d", (int) edn_external_register_type(id, ext_eq_of(k), ext_hash_of(k)));
            if (nused < 64) used[nused++] = id;
        } else if (op[0] == 'u') { edn_external_unregister_type((uint32_t) strtoul(op + 1, 0, 10)); printf("-"); }
        else if (op[0] == 'l') {
            uint32_t id = (uint32_t) strtoul(op + 1, 0, 10);
            edn_external_equal_fn e = edn_external_lookup_equal(id);
            edn_external_hash_fn h = edn_external_lookup_hash(id);
            if (!e) printf("none"); else if (!h) printf("k%dn", e == xeq1); else printf("k%d%d", e == xeq1, h == xh1);
        } else printf("badop");
    }
    printf("\n");
    for (int i = 0; i < nused; i++) edn_external_unregister_type(used[i]);
}

/* ---- arena request sequences:  arena <size>,<size>,...  -> per request: offset class ---- */
static void run_arena(char* text) {
    edn_arena_t* a = edn_arena_create();
    int first = 1;
    uintptr_t prev_end = 0;
    (void) prev_end;
    /* remember blocks handed out to check disjointness and alignment */
    struct { uintptr_t p; size_t n; } got[256];
    int ngot = 0;
    for (char* tok = strtok(text, ","); tok; tok = strtok(NULL, ",")) {
        size_t req = (size_t) strtoull(tok, 0, 0);
        if (tok[0] == 'M') req = SIZE_MAX - (size_t) strtoull(tok + 1, 0, 10);   /* M<k> = SIZE_MAX-k */
        void* p = edn_arena_alloc(a, req);
        if (!first) printf(";");
        first = 0;
        if (!p) { printf("NULL"); continue; }
        int bad = 0;
        if (req > ((size_t) 1 << 48)) bad |= 4;      /* such a request cannot have been met */
        if (((uintptr_t) p) % 8) bad |= 1;
        for (int i = 0; i < ngot; i++) {
            uintptr_t s1 = got[i].p, e1 = got[i].p + got[i].n, s2 = (uintptr_t) p, e2 = s2 + req;
            if (s2 < e1 && s1 < e2 && got[i].n && req) bad |= 2;
        }
        if (req && req < (1u << 22)) memset(p, 0xA5, req);   /* must be writable for its full size */
        if (ngot < 256) { got[ngot].p = (uintptr_t) p; got[ngot].n = req; ngot++; }
        printf(bad ? "BAD%d" : "ok", bad);
    }
    printf("\n");
    edn_arena_destroy(a);
}
