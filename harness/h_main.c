/* harness/h_main.c -- C side of the correspondence check.
 *
 * Unity build over /repo/src/*.c (so file-static functions are reachable without any
 * source hook), one binary per feature-flag combination and build kind.  Reads one case
 * per line on stdin, prints exactly one observation line per case on stdout, flushing
 * after each (so that after a sanitizer abort the number of lines printed identifies the
 * failing case).  Every buffer handed to the library is an exact-size heap block, so a
 * read outside it is an ASan error; in "guard" mode the block ends flush against a
 * PROT_NONE page and is mapped PROT_READ.
 */
#define _GNU_SOURCE
#include <stdlib.h>
#include <string.h>
#include <stddef.h>
#ifdef VERIF_FAILINJECT
/* allocation-failure injection: every malloc/calloc/realloc request made by the library is
   numbered; request k fails when g_fail_one == k, or when k >= g_fail_from */
static long g_alloc_no = 0, g_fail_one = -1, g_fail_from = -1;
static int g_fail_armed = 0;
#define MAXLIBC 4096
static long g_libc_idx[MAXLIBC]; static int g_nlibc = 0;     /* which request numbers went to libc */
static int h_should_fail(int libc) {
    if (!g_fail_armed) return 0;
    long k = g_alloc_no++;
    if (libc && g_nlibc < MAXLIBC) g_libc_idx[g_nlibc++] = k;
    return (k == g_fail_one) || (g_fail_from >= 0 && k >= g_fail_from);
}
int edn_verif_fail_alloc(void) { return h_should_fail(0); }   /* arena-level requests (hook) */
static void* h_malloc(size_t n) { return h_should_fail(1) ? NULL : malloc(n); }
static void* h_calloc(size_t a, size_t b) { return h_should_fail(1) ? NULL : calloc(a, b); }
static void* h_realloc(void* p, size_t n) { return h_should_fail(1) ? NULL : realloc(p, n); }
#define malloc(n) h_malloc(n)
#define calloc(a, b) h_calloc(a, b)
#define realloc(p, n) h_realloc(p, n)
#endif
#include VERIF_UNITY
#ifdef VERIF_FAILINJECT
#undef malloc
#undef calloc
#undef realloc
#endif
#include <stdio.h>
#include <stdlib.h>
#include <string.h>
#include <inttypes.h>
#include <sys/mman.h>
#include <unistd.h>

static int g_guard = 0; /* place inputs flush against an unmapped page, read-only */

static int hexval(int c) {
    if (c >= '0' && c <= '9') return c - '0';
    if (c >= 'a' && c <= 'f') return c - 'a' + 10;
    if (c >= 'A' && c <= 'F') return c - 'A' + 10;
    return -1;
}

/* decode hex token into a fresh exact-size buffer; "-" = empty */
typedef struct { char* p; size_t n; void* map; size_t maplen; } buf_t;

static buf_t buf_from_hex(const char* h) {
    buf_t b = {0};
    size_t hl = strlen(h);
    if (hl == 1 && h[0] == '-') hl = 0;
    b.n = hl / 2;
    if (g_guard) {
        size_t pg = (size_t) sysconf(_SC_PAGESIZE);
        size_t body = ((b.n + pg - 1) / pg) * pg;
        if (body == 0) body = pg;
        b.maplen = body + pg;
        b.map = mmap(NULL, b.maplen, PROT_READ | PROT_WRITE, MAP_PRIVATE | MAP_ANONYMOUS, -1, 0);
        if (b.map == MAP_FAILED) { perror("mmap"); exit(3); }
        mprotect((char*) b.map + body, pg, PROT_NONE);
        b.p = (char*) b.map + body - b.n;
        for (size_t i = 0; i < b.n; i++) b.p[i] = (char) (hexval(h[2 * i]) * 16 + hexval(h[2 * i + 1]));
        mprotect(b.map, body, PROT_READ);
    } else {
        b.p = (char*) malloc(b.n ? b.n : 1);
        for (size_t i = 0; i < b.n; i++) b.p[i] = (char) (hexval(h[2 * i]) * 16 + hexval(h[2 * i + 1]));
    }
    return b;
}

static void buf_free(buf_t* b) {
    if (b->map) munmap(b->map, b->maplen); else free(b->p);
    b->p = NULL;
    b->map = NULL;
}

#include "h_dump.h"
#include "h_script.h"

#define MAXTOK 16
static int split(char* line, char** tok) {
    int n = 0;
    char* s = line;
    while (*s && n < MAXTOK) {
        while (*s == ' ') s++;
        if (!*s || *s == '\n') break;
        tok[n++] = s;
        while (*s && *s != ' ' && *s != '\n') s++;
        if (*s) *s++ = 0;
    }
    return n;
}

int main(int argc, char** argv) {
    for (int i = 1; i < argc; i++) {
        if (!strcmp(argv[i], "--guard")) g_guard = 1;
        if (!strcmp(argv[i], "--stack1m")) g_small_stack = 1;
    }
    size_t cap = 1 << 22;
    char* line = (char*) malloc(cap);
    while (fgets(line, (int) cap, stdin)) {
        char* tok[MAXTOK];
        int nt = split(line, tok);
        if (nt == 0) { printf("\n"); fflush(stdout); continue; }
        const char* cmd = tok[0];
        if (!strcmp(cmd, "skipws") && nt == 4) {
            buf_t b = buf_from_hex(tok[1]);
            size_t p = strtoull(tok[2], 0, 10), e = strtoull(tok[3], 0, 10);
            const char* r = edn_simd_skip_whitespace(b.p + p, b.p + e);
            printf("%zu\n", (size_t) (r - b.p));
            buf_free(&b);
        } else if (!strcmp(cmd, "findquote") && nt == 4) {
            buf_t b = buf_from_hex(tok[1]);
            size_t p = strtoull(tok[2], 0, 10), e = strtoull(tok[3], 0, 10);
            bool f = false;
            const char* r = edn_simd_find_quote(b.p + p, b.p + e, &f);
            if (r) printf("%zu %d\n", (size_t) (r - b.p), (int) f); else printf("NULL\n");
            buf_free(&b);
        } else if (!strcmp(cmd, "digits") && nt == 4) {
            buf_t b = buf_from_hex(tok[1]);
            size_t p = strtoull(tok[2], 0, 10), e = strtoull(tok[3], 0, 10);
            const char* r = edn_simd_scan_digits(b.p + p, b.p + e);
            printf("%zu\n", (size_t) (r - b.p));
            buf_free(&b);
        } else if (!strcmp(cmd, "ident") && nt == 4) {
            /* identifier.c scan_identifier (static): both code paths */
            buf_t b = buf_from_hex(tok[1]);
            size_t p = strtoull(tok[2], 0, 10), e = strtoull(tok[3], 0, 10);
            edn_identifier_scan_t r = scan_identifier(b.p + p, b.p + e);
            if (!r.valid) printf("INVALID\n");
            else {
                printf("%zu ", (size_t) (r.start - b.p) + r.length);
                if (r.namespace) printf("ns=%zu+%zu ", (size_t) (r.namespace - b.p), r.ns_length);
                else printf("ns=- ");
                printf("name=%zu+%zu\n", (size_t) (r.name - b.p), r.name_length);
            }
            buf_free(&b);
        } else if (!strcmp(cmd, "lfindex") && nt == 2) {
            buf_t b = buf_from_hex(tok[1]);
            edn_arena_t* a = edn_arena_create();
            newline_positions_t* np = newline_find_all(b.p, b.n, a);
            if (!np) printf("NULL\n");
            else {
                printf("%zu:", np->count);
                for (size_t i = 0; i < np->count; i++) printf("%s%zu", i ? "," : "", np->offsets[i]);
                printf("\n");
            }
            edn_arena_destroy(a);
            buf_free(&b);
#ifdef H_NO_LEAF
        /* the static leaf functions no longer have the shape these direct calls were written for: the harness was
           rebuilt without them (tools/build.py); every direct leaf call answers NOLEAF, which the model never does */
        } else if (!strcmp(cmd, "int64") || !strcmp(cmd, "swar") || !strcmp(cmd, "swarall") || !strcmp(cmd, "double") || !strcmp(cmd, "gcd")) {
            printf("NOLEAF\n");
#else
        } else if (!strcmp(cmd, "int64") && nt == 4) {
            /* number.c parse_int64_from_buffer (static) */
            buf_t b = buf_from_hex(tok[1]);
            int64_t v = 0;
            bool ok = parse_int64_from_buffer(b.p, b.p + b.n, &v, (uint8_t) atoi(tok[2]), atoi(tok[3]) != 0);
            if (ok) printf("OK %" PRId64 "\n", v); else printf("OVERFLOW\n");
            buf_free(&b);
        } else if (!strcmp(cmd, "swar") && nt == 2) {
            buf_t b = buf_from_hex(tok[1]);
            if (is_made_of_eight_digits_fast(b.p)) printf("1 %u\n", parse_eight_digits_unrolled(b.p));
            else printf("0\n");
            buf_free(&b);
        } else if (!strcmp(cmd, "swarall") && nt == 3) {
            /* every 8-digit block in [lo, hi): SWAR converter against plain arithmetic */
            unsigned long lo = strtoul(tok[1], 0, 10), hi = strtoul(tok[2], 0, 10), bad = 0, first = 0;
            char blk[9];
            for (unsigned long v = lo; v < hi; v++) {
                unsigned long t = v;
                for (int i = 7; i >= 0; i--) { blk[i] = (char) ('0' + t % 10); t /= 10; }
                if (!is_made_of_eight_digits_fast(blk) || parse_eight_digits_unrolled(blk) != v) {
                    if (!bad) first = v;
                    bad++;
                }
            }
            if (bad) printf("BAD %lu first=%08lu\n", bad, first); else printf("OK %lu\n", hi - lo);
        } else if (!strcmp(cmd, "double") && nt == 2) {
            buf_t b = buf_from_hex(tok[1]);
            double d = 0;
            if (!parse_double_from_buffer(b.p, b.p + b.n, &d)) { printf("OOM\n"); buf_free(&b); fflush(stdout); continue; }
            uint64_t u; memcpy(&u, &d, 8);
            if (d != d) u = 0x7FF8000000000000ULL;
            printf("%016" PRIx64 "\n", u);
            buf_free(&b);
        } else if (!strcmp(cmd, "gcd") && nt == 3) {
#ifdef EDN_ENABLE_CLOJURE_EXTENSION
            printf("%" PRId64 "\n", ratio_gcd(strtoll(tok[1], 0, 10), strtoll(tok[2], 0, 10)));
#else
            printf("NA\n");
#endif
#endif /* H_NO_LEAF */
        } else if (!strcmp(cmd, "script") && nt == 2) {
            run_script(tok[1]);
        } else if (!strcmp(cmd, "reg") && nt == 2) {
            run_registry_ops(tok[1]);
        } else if (!strcmp(cmd, "ext") && nt == 2) {
            run_ext_ops(tok[1]);
        } else if (!strcmp(cmd, "arena") && nt == 2) {
            run_arena(tok[1]);
        } else if (!h_dump_command(cmd, nt, tok)) {
            printf("BADCMD %s\n", cmd);
        }
        fflush(stdout);
    }
    free(line);
    return 0;
}
